(* Proofs about Model/FMap.v (property C05): FunctorMap and mul_p_map return map(f, data) in input order, for every
   configuration, history of calls and schedule; they terminate. *)
From Coq Require Import ZArith List Bool Arith Lia Permutation Sorted.
From WPU Require Import Common.Val Common.ListX Common.Perm Model.Pool Model.FMap Proofs.GenericP Proofs.PoolP Proofs.PoolLifeP.
Import ListNotations.
Open Scope nat_scope.

(* ------------------------------------------------------------------ sorting by index *)
Lemma ins_perm e l : Permutation (ins_by_idx e l) (e :: l).
Proof.
  induction l as [|h t IH]; simpl; auto. destruct (fst e <? fst h); auto. rewrite IH. apply perm_swap.
Qed.
Lemma sort_perm_gen l : forall acc, Permutation (fold_left (fun a e => ins_by_idx e a) l acc) (acc ++ l).
Proof.
  induction l as [|e l IH]; intros acc; simpl; [rewrite app_nil_r; reflexivity|].
  rewrite IH. rewrite ins_perm. change (e :: acc ++ l) with ((e :: acc) ++ l). rewrite <- Permutation_middle. reflexivity.
Qed.
Lemma sort_perm l : Permutation (sort_by_idx l) l.
Proof. unfold sort_by_idx. rewrite sort_perm_gen. reflexivity. Qed.

Definition ksorted (l : list (nat * list Z)) : Prop := StronglySorted le (map fst l).
Lemma ins_sorted e l : ksorted l -> ksorted (ins_by_idx e l).
Proof.
  unfold ksorted. induction l as [|h t IH]; intros S; simpl.
  - constructor; constructor.
  - destruct (fst e <? fst h) eqn:C.
    + apply Nat.ltb_lt in C. simpl. constructor; auto. inversion S; subst. constructor; [lia|].
      eapply Forall_impl; [|eassumption]. simpl. intros; lia.
    + apply Nat.ltb_ge in C. simpl. inversion S; subst. constructor; auto.
      assert (P : Permutation (map fst (ins_by_idx e t)) (fst e :: map fst t)) by (rewrite ins_perm; reflexivity).
      rewrite Forall_forall in *. intros x Hx. eapply Permutation_in in Hx; [|exact P]. destruct Hx as [<-|Hx]; auto.
Qed.
Lemma sort_sorted l : ksorted (sort_by_idx l).
Proof.
  unfold sort_by_idx. assert (G : forall acc, ksorted acc -> ksorted (fold_left (fun a e => ins_by_idx e a) l acc)).
  { induction l as [|e l IH]; intros acc S; simpl; auto. apply IH. apply ins_sorted; auto. }
  apply G. constructor.
Qed.
Lemma sorted_perm_eq : forall l1 l2 : list nat, StronglySorted le l1 -> StronglySorted le l2 -> Permutation l1 l2 -> l1 = l2.
Proof.
  induction l1 as [|x1 t1 IH]; intros l2 S1 S2 P.
  - apply Permutation_nil in P. auto.
  - destruct l2 as [|x2 t2]; [apply Permutation_sym, Permutation_nil in P; discriminate|].
    inversion S1 as [|? ? S1t F1]; inversion S2 as [|? ? S2t F2]; subst.
    assert (x1 = x2).
    { assert (H1 : In x1 (x2 :: t2)) by (eapply Permutation_in; [exact P | left; reflexivity]).
      assert (H2 : In x2 (x1 :: t1)) by (eapply Permutation_in; [symmetry; exact P | left; reflexivity]).
      rewrite Forall_forall in F1, F2. destruct H1 as [->|H1]; auto. destruct H2 as [->|H2]; auto.
      specialize (F1 _ H2). specialize (F2 _ H1). lia. }
    subst x2. f_equal. apply IH; auto. eapply Permutation_cons_inv; eauto.
Qed.
Lemma seq_sorted : forall n a, StronglySorted le (seq a n).
Proof.
  induction n as [|n IH]; intros a; simpl; constructor; auto. apply Forall_forall. intros x Hx. apply in_seq in Hx. lia.
Qed.

Lemma sort_by_idx_spec (ch : nat -> list Z) l n : Permutation (map fst l) (seq 0 n) -> Forall (fun e => snd e = ch (fst e)) l ->
  concat (map snd (sort_by_idx l)) = concat (map ch (seq 0 n)).
Proof.
  intros P F. assert (K : map fst (sort_by_idx l) = seq 0 n).
  { apply sorted_perm_eq; [apply sort_sorted | apply seq_sorted |]. rewrite sort_perm. exact P. }
  rewrite <- K, map_map. f_equal. apply map_ext_in. intros e He. rewrite Forall_forall in F. apply F.
  eapply Permutation_in; [apply sort_perm | exact He].
Qed.

(* ------------------------------------------------------------------ where the chunks of the current call are *)
Definition mhw (w : mwpc) : list (nat * list Z) := match w with MWHold i xs => [(i, xs)] | _ => [] end.
Definition mheld (ps : list mwpc) : list (nat * list Z) := flat_map mhw ps.
Definition mentries (s : mstate) : list (nat * list Z) :=
  q_entries (ms_workq s) ++ mheld (ms_procs s) ++ q_entries (ms_resq s) ++ ms_buffer s.
Definition mchunk (s : mstate) (j : nat) : list Z := firstn (ms_chunk s) (skipn (j * ms_chunk s) (ms_data s)).
Definition active (cfg : mcfg) (m : mmpc) : bool :=
  match m with
  | MmPut _ _ | MmDrain _ _ | MmFinal => true
  | MmEnter _ | MmNones _ | MmJoin _ => negb (m_kind cfg)
  | _ => false
  end.

Lemma mheld_set_nth ps k w w' : nth_error ps k = Some w -> Permutation (mheld (set_nth k w' ps) ++ mhw w) (mhw w' ++ mheld ps).
Proof.
  revert k; induction ps as [|p ps IH]; intros [|k] H; simpl in *; try discriminate.
  - injection H as ->. unfold mheld. simpl. fold (mheld ps).
    rewrite <- app_assoc. rewrite (Permutation_app_comm (mheld ps) (mhw w)). reflexivity.
  - unfold mheld in *. simpl. fold (mheld ps). fold (mheld (set_nth k w' ps)).
    rewrite <- app_assoc. rewrite (IH k H). rewrite !app_assoc. apply Permutation_app_tail. apply Permutation_app_comm.
Qed.
Lemma mheld_repeat_new n : mheld (repeat MWNew n) = [].
Proof. induction n; simpl; auto. Qed.

Record MCore (cfg : mcfg) (s : mstate) : Prop := {
  mc_pi : exists pi, Permutation (pi ++ map fst (mentries s)) (seq 0 (ms_cnt s))
            /\ (if m_kind cfg then ms_yield s = concat (map (mchunk s) pi) /\ ms_finished s = length pi /\ pi = seq 0 (ms_wait s)
                else pi = [] /\ ms_finished s = length (ms_buffer s));
  mc_payload : Forall (fun e => snd e = mchunk s (fst e)) (mentries s);
  mc_chunk : 1 <= ms_chunk s;
  mc_pos : match ms_main s with
           | MmPut i rest => rest = skipn (i * ms_chunk s) (ms_data s) /\ ms_cnt s = i /\ rest <> []
           | MmDrain i rest => rest = skipn (i * ms_chunk s) (ms_data s) /\ ms_cnt s = i
           | MmEnter _ => ms_cnt s = 0
           | MmJoin _ => skipn (ms_cnt s * ms_chunk s) (ms_data s) = [] /\ ms_cnt s <= ms_finished s
           | _ => skipn (ms_cnt s * ms_chunk s) (ms_data s) = []
           end;
}.

Definition mact_ok (a : list Z * nat) : Prop := 1 <= snd a.

Record MInv (cfg : mcfg) (hist : list (list Z * nat)) (s : mstate) : Prop := {
  mi_err : ms_err s = false;
  mi_hist : Forall mact_ok (ms_todo s);
  mi_core : if active cfg (ms_main s) then MCore cfg s else mentries s = [];
  mi_split : exists done, hist = done ++ (if active cfg (ms_main s) then [(ms_data s, ms_chunk s)] else []) ++ ms_todo s
                          /\ ms_done s = map fst done;
}.

Lemma mcore_count cfg s : MCore cfg s -> (if m_kind cfg then ms_finished s else 0) + length (mentries s) = ms_cnt s.
Proof.
  intros [(pi & P1 & P2) _ _ _]. apply Permutation_length in P1. rewrite app_length, map_length, seq_length in P1.
  destruct (m_kind cfg); [destruct P2 as (_ & -> & _); lia | destruct P2 as (-> & _); simpl in P1; lia].
Qed.

Lemma mcore_transfer cfg s s' : MCore cfg s -> ms_chunk s' = ms_chunk s -> ms_data s' = ms_data s -> ms_cnt s' = ms_cnt s ->
  ms_finished s' = ms_finished s -> ms_wait s' = ms_wait s -> ms_yield s' = ms_yield s -> ms_buffer s' = ms_buffer s ->
  Permutation (mentries s') (mentries s) ->
  match ms_main s' with
  | MmPut i rest => rest = skipn (i * ms_chunk s) (ms_data s) /\ ms_cnt s = i /\ rest <> []
  | MmDrain i rest => rest = skipn (i * ms_chunk s) (ms_data s) /\ ms_cnt s = i
  | MmEnter _ => ms_cnt s = 0
  | MmJoin _ => skipn (ms_cnt s * ms_chunk s) (ms_data s) = [] /\ ms_cnt s <= ms_finished s
  | _ => skipn (ms_cnt s * ms_chunk s) (ms_data s) = []
  end -> MCore cfg s'.
Proof.
  intros [(pi & P1 & P2) Hp Hc Hpos] E1 E2 E3 E4 E5 E6 E7 P Hpos'.
  assert (Mc : forall j, mchunk s' j = mchunk s j) by (intros j; unfold mchunk; rewrite E1, E2; reflexivity).
  constructor.
  - exists pi. rewrite E3, E4, E5, E6, E7. split.
    + rewrite <- P1. apply Permutation_app_head. apply Permutation_map. exact P.
    + destruct (m_kind cfg); auto. destruct P2 as (Y & F & W). repeat split; auto. rewrite Y. f_equal. apply map_ext. intros j. symmetry. apply Mc.
  - rewrite Forall_forall in *. intros e He. rewrite Mc. apply Hp. eapply Permutation_in; eauto.
  - rewrite E1. exact Hc.
  - rewrite E1, E2, E3, E4. exact Hpos'.
Qed.

Lemma mq_entries_app a b : q_entries (a ++ b) = q_entries a ++ q_entries b.
Proof. apply q_entries_app. Qed.

Ltac msplit_keep Hs := destruct Hs as (done & Hsp & Hdn); exists done; simpl; split; [exact Hsp | exact Hdn].

Lemma fresh_mcore cfg s' d c m : ms_cnt s' = 0 -> ms_finished s' = 0 -> ms_buffer s' = [] -> ms_wait s' = 0 -> ms_yield s' = [] ->
  ms_chunk s' = c -> ms_data s' = d -> mentries s' = [] -> 1 <= c -> ms_main s' = m ->
  (m = first_pc cfg d \/ exists k, m = MmEnter k) -> MCore cfg s'.
Proof.
  intros E1 E2 E3 E4 E5 E6 E7 En Hc Hm Hfirst. constructor.
  - exists []. rewrite En, E1. simpl. split; [reflexivity|]. rewrite E2, E3, E4, E5. destruct (m_kind cfg); auto.
  - rewrite En. constructor.
  - rewrite E6. exact Hc.
  - rewrite Hm, E1, E6, E7. destruct Hfirst as [->|(k & ->)]; [|reflexivity].
    unfold first_pc, after_loop. destruct d; simpl; [destruct (m_kind cfg); reflexivity|]. repeat split; auto. discriminate.
Qed.

Lemma mheld_set_nth_same ps k w w' : nth_error ps k = Some w -> mhw w' = mhw w -> mheld (set_nth k w' ps) = mheld ps.
Proof.
  revert k; induction ps as [|p ps IH]; intros [|k] H E; simpl in *; try discriminate.
  - injection H as ->. unfold mheld. simpl. rewrite E. reflexivity.
  - unfold mheld in *. simpl. f_equal. apply (IH k H E).
Qed.

Lemma minv_start cfg hist s s' : MInv cfg hist s -> mstep cfg s MStart = Some s' -> MInv cfg hist s'.
Proof.
  intros [Ie Ih Ic Is] H. simpl in H.
  destruct (ms_main s) eqn:M; try discriminate. destruct (nth_error (ms_procs s) k) as [[| | |]|] eqn:N; try discriminate.
  injection H as <-.
  assert (Hh : mheld (set_nth k MWIdle (ms_procs s)) = mheld (ms_procs s)) by (apply mheld_set_nth_same with (w := MWNew); auto).
  unfold active in *. destruct (m_kind cfg) eqn:K; simpl in *.
  - constructor; simpl; auto.
    + destruct (S k <? _); simpl; rewrite ?K; simpl; unfold mentries in *; simpl; rewrite Hh; exact Ic.
    + destruct (S k <? _); simpl; rewrite ?K; simpl; exact Is.
  - assert (En : forall m, mentries (set_main (set_procs s (set_nth k MWIdle (ms_procs s))) m) = mentries s).
    { intros m. unfold mentries; simpl. rewrite Hh. reflexivity. }
    pose proof (mc_pos _ _ Ic) as Pos. rewrite M in Pos.
    constructor; simpl; auto.
    + destruct (S k <? _); simpl; rewrite ?K; simpl.
      * apply (mcore_transfer cfg s); auto; try reflexivity. rewrite En; reflexivity.
      * unfold first_pc, after_loop. rewrite K. destruct (ms_data s) eqn:D; simpl; rewrite ?K; simpl.
        -- apply (mcore_transfer cfg s); auto; try reflexivity; [rewrite En; reflexivity|]. simpl. rewrite Pos, D. reflexivity.
        -- apply (mcore_transfer cfg s); auto; try reflexivity; [rewrite En; reflexivity|]. simpl. rewrite Pos, D. repeat split; auto. discriminate.
    + destruct (S k <? _); simpl; rewrite ?K; simpl; [exact Is|].
      unfold first_pc, after_loop. rewrite K. destruct (ms_data s); simpl; rewrite ?K; exact Is.
Qed.

Lemma entries_nil_mparts s : mentries s = [] ->
  q_entries (ms_workq s) = [] /\ mheld (ms_procs s) = [] /\ q_entries (ms_resq s) = [] /\ ms_buffer s = [].
Proof.
  unfold mentries. intros H. apply app_eq_nil in H. destruct H as [H1 H]. apply app_eq_nil in H. destruct H as [H2 H].
  apply app_eq_nil in H. tauto.
Qed.

Lemma minv_next cfg hist s s' : MInv cfg hist s -> mstep cfg s MNext = Some s' -> MInv cfg hist s'.
Proof.
  intros [Ie Ih Ic Is] H. simpl in H. destruct (ms_main s) eqn:M; try discriminate.
  unfold active in Ic, Is. simpl in Ic, Is. destruct (entries_nil_mparts s Ic) as (Q1 & Q2 & Q3 & Q4).
  destruct (ms_todo s) as [|[d c] rest] eqn:T.
  - injection H as <-. constructor; simpl; auto.
    + rewrite T. constructor.
    + destruct (m_kind cfg) eqn:K; simpl; rewrite ?K; simpl; exact Ic.
    + destruct (m_kind cfg) eqn:K; simpl; rewrite ?K; simpl; rewrite ?T; exact Is.
  - inversion Ih as [|? ? Hc Hr]; subst. unfold mact_ok in Hc. simpl in Hc.
    destruct (m_kind cfg) eqn:K; injection H as <-.
    + assert (Ha : active cfg (first_pc cfg d) = true).
      { unfold first_pc, after_loop, active. rewrite K. destruct d; reflexivity. }
      constructor; simpl; auto.
      * rewrite Ha. eapply fresh_mcore; simpl; eauto. unfold mentries; simpl. rewrite Q1, Q2, Q3. reflexivity.
      * rewrite Ha. destruct Is as (done & Hsp & Hdn). exists done. split; auto.
    + constructor; simpl; auto.
      * rewrite K. simpl. eapply fresh_mcore; simpl; eauto. unfold mentries; simpl. rewrite Q1, Q3, mheld_repeat_new. reflexivity.
      * rewrite K. simpl. destruct Is as (done & Hsp & Hdn). exists done. split; auto.
Qed.

Local Arguments seq : simpl never.
Local Arguments Nat.mul : simpl never.
Lemma minv_put cfg hist s s' : MInv cfg hist s -> mstep cfg s MPut = Some s' -> MInv cfg hist s'.
Proof.
  intros [Ie Ih Ic Is] H. simpl in H. destruct (ms_main s) as [| |i rest| | | | |] eqn:M; try discriminate.
  destruct rest as [|x r]; try discriminate. destruct (full _ _); try discriminate. injection H as <-.
  unfold active in Ic, Is. simpl in Ic, Is. destruct Ic as [(pi & P1 & P2) Hp Hc Hpos]. rewrite M in Hpos. destruct Hpos as (Hr & Hcnt & _).
  constructor; simpl; auto. constructor; simpl.
  - exists pi. split.
    + unfold mentries; simpl. rewrite q_entries_app. simpl. rewrite seq_S. simpl. rewrite <- P1. unfold mentries.
      rewrite !map_app. simpl. rewrite Hcnt. perm.
    + destruct (m_kind cfg); auto.
  - unfold mentries; simpl. rewrite q_entries_app. simpl. rewrite <- !app_assoc. simpl.
    rewrite Forall_app in *. unfold mentries in Hp. rewrite Forall_app in Hp. destruct Hp as [Hp1 Hp2]. split; auto.
    constructor; auto. simpl. unfold mchunk; simpl. rewrite Hr. reflexivity.
  - exact Hc.
  - split; [|congruence]. rewrite Hr. rewrite skipn_skipn_add. f_equal. lia.
Qed.

Lemma absorb_frame kind s i xs : let s' := absorb kind s i xs in
  ms_todo s' = ms_todo s /\ ms_main s' = ms_main s /\ ms_chunk s' = ms_chunk s /\ ms_data s' = ms_data s /\ ms_cnt s' = ms_cnt s
  /\ ms_done s' = ms_done s /\ ms_workq s' = ms_workq s /\ ms_resq s' = ms_resq s /\ ms_procs s' = ms_procs s.
Proof.
  unfold absorb. destruct kind; [|simpl; repeat split].
  destruct (process_ordered _ _) as [[[[b w] fin] ys] er]. simpl. repeat split.
Qed.

Lemma absorb_core cfg s i xs q : MCore cfg s -> ms_err s = false -> ms_resq s = QChunk i xs :: q ->
  (match ms_main s with MmDrain _ _ | MmFinal => True | _ => False end) ->
  MCore cfg (absorb (m_kind cfg) (set_resq s q) i xs) /\ ms_err (absorb (m_kind cfg) (set_resq s q) i xs) = false.
Proof.
  intros [(pi & P1 & P2) Hp Hc Hpos] He Hq Hm.
  set (others := map fst (q_entries (ms_workq s) ++ mheld (ms_procs s) ++ q_entries q)).
  assert (En : Permutation (map fst (mentries s)) (i :: map fst (ms_buffer s) ++ others)).
  { unfold mentries, others. rewrite Hq. simpl. rewrite !map_app. simpl. rewrite !map_app. perm. }
  assert (Hpay : snd (i, xs) = mchunk s i /\ Forall (fun e => snd e = mchunk s (fst e)) (ms_buffer s)
                 /\ Forall (fun e => snd e = mchunk s (fst e)) (q_entries (ms_workq s) ++ mheld (ms_procs s) ++ q_entries q)).
  { unfold mentries in Hp. rewrite Hq in Hp. simpl in Hp. rewrite !Forall_app in Hp. destruct Hp as (H1 & H2 & H3).
    inversion H3 as [|? ? H4 H5]; subst. rewrite Forall_app in H5. destruct H5 as [H5 H6]. repeat split; auto. rewrite !Forall_app. auto. }
  destruct Hpay as (Hi & Hb & Ho).
  destruct (m_kind cfg) eqn:K.
  - destruct P2 as (Y & F & W). subst pi. rewrite seq_length in F.
    destruct (process_batch (mchunk s) others (ms_cnt s) [(i, xs)] (ms_buffer s) (ms_wait s) (ms_yield s)) as (b' & w' & Hf & P' & F').
    + rewrite <- P1. apply Permutation_app_head. rewrite En. simpl. reflexivity.
    + constructor; auto.
    + exact Y.
    + cbn [fold_left] in Hf. unfold absorb, set_resq. cbn [ms_buffer ms_wait ms_finished ms_yield ms_err]. rewrite He, F, Hf. simpl. split; [|reflexivity]. constructor; simpl.
      * exists (seq 0 w'). split.
        -- rewrite <- P'. apply Permutation_app_head. unfold mentries, others; simpl. rewrite !map_app. perm.
        -- rewrite K. repeat split; auto. rewrite seq_length. reflexivity.
      * unfold mentries; simpl. unfold mchunk in *. simpl. rewrite !Forall_app in *. tauto.
      * exact Hc.
      * destruct (ms_main s); try contradiction; exact Hpos.
  - destruct P2 as (-> & F). unfold absorb. simpl. split; [|exact He]. constructor; simpl.
    + exists []. split.
      * simpl in *. rewrite <- P1. rewrite En. unfold mentries, others; simpl. rewrite !map_app. simpl. perm.
      * rewrite K. split; auto. rewrite app_length. simpl. lia.
    + unfold mentries; simpl. unfold mchunk in *. simpl. rewrite !Forall_app in *. repeat split; try tauto. constructor; auto.
    + exact Hc.
    + destruct (ms_main s); try contradiction; exact Hpos.
Qed.

Lemma minv_absorb cfg hist s i xs q : MInv cfg hist s -> ms_resq s = QChunk i xs :: q ->
  (match ms_main s with MmDrain _ _ | MmFinal => True | _ => False end) ->
  MInv cfg hist (absorb (m_kind cfg) (set_resq s q) i xs).
Proof.
  intros [Ie Ih Ic Is] Hq Hm.
  assert (Ha : active cfg (ms_main s) = true) by (destruct (ms_main s); try contradiction; reflexivity).
  rewrite Ha in Ic, Is. destruct (absorb_core cfg s i xs q Ic Ie Hq Hm) as [C E].
  destruct (absorb_frame (m_kind cfg) (set_resq s q) i xs) as (F1 & F2 & F3 & F4 & F5 & F6 & F7 & F8 & F9). simpl in *.
  constructor; rewrite ?F1, ?F2, ?F3, ?F4, ?F6, ?Ha; auto.
Qed.

(* steps that only move chunks between the queues and the workers *)
Lemma minv_move cfg hist s s' : MInv cfg hist s ->
  ms_todo s' = ms_todo s -> ms_main s' = ms_main s -> ms_chunk s' = ms_chunk s -> ms_data s' = ms_data s -> ms_cnt s' = ms_cnt s ->
  ms_finished s' = ms_finished s -> ms_buffer s' = ms_buffer s -> ms_wait s' = ms_wait s -> ms_yield s' = ms_yield s ->
  ms_done s' = ms_done s -> ms_err s' = ms_err s -> Permutation (mentries s') (mentries s) -> MInv cfg hist s'.
Proof.
  intros [Ie Ih Ic Is] E1 E2 E3 E4 E5 E6 E7 E8 E9 E10 E11 P. constructor; rewrite ?E1, ?E2, ?E3, ?E4, ?E10, ?E11; auto.
  destruct (active cfg (ms_main s)).
  - apply (mcore_transfer cfg s); auto. rewrite E2. pose proof (mc_pos _ _ Ic) as Pos. destruct (ms_main s); exact Pos.
  - rewrite Ic in P. apply Permutation_sym, Permutation_nil in P. exact P.
Qed.

Lemma concat_mchunks s n : concat (map (mchunk s) (seq 0 n)) = firstn (n * ms_chunk s) (ms_data s).
Proof. unfold mchunk. apply concat_chunks. Qed.

Lemma minv_rest cfg hist s e s' : MInv cfg hist s -> mstep cfg s e = Some s' ->
  match e with MStart | MNext | MPut => False | _ => True end -> MInv cfg hist s'.
Proof.
  intros I H He. destruct e; try contradiction; clear He; simpl in H.
  - (* MTry *)
    destruct (ms_main s) eqn:M; try discriminate. destruct (ms_resq s) as [|[i0 xs|] q] eqn:Q; try discriminate. injection H as <-.
    apply minv_absorb; auto. rewrite M. exact Logic.I.
  - (* MEmpty *)
    destruct (ms_main s) as [| | |i rest| | | |] eqn:M; try discriminate. injection H as <-.
    destruct I as [Ie Ih Ic Is]. unfold active in Ic, Is. rewrite M in Ic, Is. simpl in Ic, Is.
    pose proof (mc_pos _ _ Ic) as Pos. rewrite M in Pos. destruct Pos as [Hr Hc].
    assert (Ha : active cfg (match rest with [] => after_loop cfg | _ :: _ => MmPut i rest end) = true).
    { destruct rest; [unfold after_loop, active; destruct (m_kind cfg); reflexivity | reflexivity]. }
    constructor; simpl; auto; rewrite Ha; auto.
    apply (mcore_transfer cfg s); auto; try reflexivity. simpl.
    destruct rest as [|x r]; [unfold after_loop; destruct (m_kind cfg); simpl; rewrite Hc; symmetry; exact Hr|].
    repeat split; auto. discriminate.
  - (* MGet *)
    destruct (ms_main s) eqn:M; try discriminate. destruct (ms_resq s) as [|[i0 xs|] q] eqn:Q; try discriminate.
    destruct (ms_finished s <? ms_cnt s); try discriminate. injection H as <-.
    apply minv_absorb; auto. rewrite M. exact Logic.I.
  - (* MEnd *)
    destruct (ms_main s) eqn:M; try discriminate. destruct (ms_finished s <? ms_cnt s) eqn:Lt; try discriminate. apply Nat.ltb_ge in Lt.
    destruct I as [Ie Ih Ic Is]. unfold active in Ic, Is. rewrite M in Ic, Is. simpl in Ic, Is.
    pose proof (mc_pos _ _ Ic) as Pos. rewrite M in Pos.
    destruct (m_kind cfg) eqn:K; injection H as <-.
    + pose proof (mcore_count _ _ Ic) as Cn. rewrite K in Cn.
      assert (En : mentries s = []) by (destruct (mentries s); [reflexivity | simpl in Cn; lia]).
      destruct (mc_pi _ _ Ic) as (pi & P1 & P2). rewrite K in P2. destruct P2 as (Y & F & W).
      assert (Hy : ms_yield s = ms_data s).
      { rewrite En in Cn. simpl in Cn. rewrite Y, W. replace (ms_wait s) with (ms_cnt s) by (subst pi; rewrite seq_length in F; lia).
        rewrite concat_mchunks. rewrite <- (firstn_skipn (ms_cnt s * ms_chunk s) (ms_data s)) at 2. rewrite Pos, app_nil_r. reflexivity. }
      constructor; simpl; auto.
      destruct Is as (done & Hsp & Hdn). exists (done ++ [(ms_data s, ms_chunk s)]). split.
      * rewrite Hsp. rewrite <- app_assoc. reflexivity.
      * rewrite map_app, Hdn, Hy. reflexivity.
    + constructor; simpl; rewrite ?K; simpl; auto. apply (mcore_transfer cfg s); auto; try reflexivity. simpl. split; auto.
  - (* MNone *)
    destruct (ms_main s) as [| | | |n| | |] eqn:M; try discriminate. destruct n as [|n]; try discriminate.
    destruct (full _ _); try discriminate. injection H as <-.
    destruct I as [Ie Ih Ic Is]. unfold active in Ic, Is. rewrite M in Ic, Is. simpl in Ic, Is.
    assert (En : forall m, mentries (set_main (set_workq s (ms_workq s ++ [QNone])) m) = mentries s).
    { intros m. unfold mentries; simpl. rewrite q_entries_app. simpl. rewrite app_nil_r. reflexivity. }
    destruct (m_kind cfg) eqn:K; simpl in *.
    + constructor; simpl; auto; destruct n; unfold active; rewrite ?K; simpl; auto; rewrite En; auto.
    + pose proof (mc_pos _ _ Ic) as Pos. rewrite M in Pos.
      constructor; simpl; auto; destruct n; unfold active; rewrite ?K; simpl; auto;
        apply (mcore_transfer cfg s); auto; try reflexivity; rewrite En; reflexivity.
  - (* MJoin *)
    destruct (ms_main s) as [| | | | | |k|] eqn:M; try discriminate.
    destruct (nth_error (ms_procs s) k) as [[| | |]|] eqn:N; try discriminate.
    destruct I as [Ie Ih Ic Is]. unfold active in Ic, Is. rewrite M in Ic, Is. simpl in Ic, Is.
    destruct (S k <? length (ms_procs s)).
    + injection H as <-. constructor; simpl; auto; unfold active; destruct (m_kind cfg) eqn:K; simpl in *; auto.
      pose proof (mc_pos _ _ Ic) as Pos. rewrite M in Pos. apply (mcore_transfer cfg s); auto; reflexivity.
    + destruct (m_kind cfg) eqn:K; injection H as <-; simpl in *.
      * constructor; simpl; auto.
      * pose proof (mc_pos _ _ Ic) as Pos. rewrite M in Pos. destruct Pos as [Hsk Hle].
        pose proof (mcore_count _ _ Ic) as Cn. rewrite K in Cn. simpl in Cn.
        destruct (mc_pi _ _ Ic) as (pi & P1 & P2). rewrite K in P2. destruct P2 as (-> & F). simpl in P1.
        assert (Hl : length (mentries s) = length (q_entries (ms_workq s) ++ mheld (ms_procs s) ++ q_entries (ms_resq s)) + length (ms_buffer s)).
        { unfold mentries. rewrite !app_length. lia. }
        assert (Z0 : q_entries (ms_workq s) ++ mheld (ms_procs s) ++ q_entries (ms_resq s) = []).
        { destruct (q_entries (ms_workq s) ++ mheld (ms_procs s) ++ q_entries (ms_resq s)); [reflexivity | simpl in Hl; lia]. }
        assert (Eb : mentries s = ms_buffer s).
        { unfold mentries. rewrite !app_assoc. rewrite <- !app_assoc in Z0. rewrite !app_assoc in Z0. rewrite Z0. reflexivity. }
        assert (Hres : concat (map snd (sort_by_idx (ms_buffer s))) = ms_data s).
        { rewrite (sort_by_idx_spec (mchunk s) _ (ms_cnt s)).
          - rewrite concat_mchunks. rewrite <- (firstn_skipn (ms_cnt s * ms_chunk s) (ms_data s)) at 2. rewrite Hsk, app_nil_r. reflexivity.
          - rewrite <- Eb. exact P1.
          - rewrite <- Eb. apply (mc_payload _ _ Ic). }
        constructor; simpl; auto.
        -- unfold mentries; simpl. rewrite app_nil_r. rewrite <- !app_assoc in Z0. exact Z0.
        -- destruct Is as (done & Hsp & Hdn). exists (done ++ [(ms_data s, ms_chunk s)]). split.
           ++ rewrite Hsp. rewrite <- app_assoc. reflexivity.
           ++ rewrite map_app, Hdn, Hres. reflexivity.
  - (* MWTake *)
    destruct (nth_error (ms_procs s) k) as [[| | |]|] eqn:N; try discriminate.
    destruct (ms_workq s) as [|[i0 xs|] q] eqn:Q; try discriminate; injection H as <-.
    + apply (minv_move cfg hist s); auto. unfold mentries; simpl. rewrite Q. simpl.
      pose proof (mheld_set_nth (ms_procs s) k MWIdle (MWHold i0 xs) N) as Hh. simpl in Hh. rewrite app_nil_r in Hh. rewrite Hh. simpl. perm.
    + apply (minv_move cfg hist s); auto. unfold mentries; simpl. rewrite Q. simpl.
      rewrite (mheld_set_nth_same _ k MWIdle MWDead N eq_refl). reflexivity.
  - (* MWRes *)
    destruct (nth_error (ms_procs s) k) as [[| |i0 xs|]|] eqn:N; try discriminate. injection H as <-.
    apply (minv_move cfg hist s); auto. unfold mentries; simpl. rewrite q_entries_app. simpl.
    pose proof (mheld_set_nth (ms_procs s) k (MWHold i0 xs) MWIdle N) as Hh. simpl in Hh.
    transitivity (q_entries (ms_workq s) ++ (mheld (set_nth k MWIdle (ms_procs s)) ++ [(i0, xs)]) ++ q_entries (ms_resq s) ++ ms_buffer s); [perm|].
    rewrite Hh. reflexivity.
Qed.

Theorem minv_step cfg hist s e s' : MInv cfg hist s -> mstep cfg s e = Some s' -> MInv cfg hist s'.
Proof.
  intros I H. destruct e; try (eapply minv_rest; eauto; exact Logic.I).
  - eapply minv_start; eauto.
  - eapply minv_next; eauto.
  - eapply minv_put; eauto.
Qed.
