(* Worker lifecycle in the pool LTS (property C04): holds for EVERY schedule, fault events included. *)
From Coq Require Import ZArith List Bool Arith Lia Permutation.
From WPU Require Import Common.Val Common.ListX Model.Pool Proofs.PoolP.
Import ListNotations.
Open Scope nat_scope.

(* ------------------------------------------------------------------ set_nth *)
Lemma set_nth_length {A} (l : list A) k x : length (set_nth k x l) = length l.
Proof. revert k; induction l as [|a l IH]; intros [|k]; simpl; auto. Qed.
Lemma nth_error_set_nth_eq {A} (l : list A) k x w : nth_error l k = Some w -> nth_error (set_nth k x l) k = Some x.
Proof. revert k; induction l as [|a l IH]; intros [|k] H; simpl in *; try discriminate; auto. Qed.
Lemma nth_error_set_nth_neq {A} (l : list A) k j x : j <> k -> nth_error (set_nth k x l) j = nth_error l j.
Proof. revert k j; induction l as [|a l IH]; intros [|k] [|j] H; simpl in *; auto; try contradiction. Qed.
Lemma Forall_set_nth {A} (P : A -> Prop) l k x : Forall P l -> P x -> Forall P (set_nth k x l).
Proof. revert k; induction l as [|a l IH]; intros [|k] F Px; simpl; auto; inversion F; subst; constructor; auto. Qed.
Lemma Forall_nth_error {A} (P : A -> Prop) l k x : Forall P l -> nth_error l k = Some x -> P x.
Proof. intros F H. rewrite Forall_forall in F. apply F. eapply nth_error_In; eauto. Qed.

(* ------------------------------------------------------------------ steps of one worker *)
Lemma slot_step_inv cfg s k kind r s' : slot_step cfg s k kind r = Some s' ->
  exists w w' s1, nth_error (s_procs s) k = Some w /\ worker_step cfg w kind r s = Some (w', s1)
    /\ s' = with_procs s1 (set_nth k w' (s_procs s1)).
Proof.
  unfold slot_step. destruct (nth_error (s_procs s) k) as [w|]; [|discriminate].
  destruct (worker_step cfg w kind r s) as [[w' s1]|] eqn:W; [|discriminate]. intros H; injection H as <-.
  exists w, w', s1. auto.
Qed.

(* a worker step leaves everything but the three queues alone *)
Lemma worker_step_frame cfg w kind r s w' s1 : worker_step cfg w kind r s = Some (w', s1) ->
  s_procs s1 = s_procs s /\ s_retired s1 = s_retired s /\ s_main s1 = s_main s /\ s_rep s1 = s_rep s /\ s_todo s1 = s_todo s
  /\ s_wid s1 = s_wid s /\ s_feeder s1 = s_feeder s /\ w_id w' = w_id w.
Proof.
  unfold worker_step. destruct kind as [|[|[|[|[|[|?]]]]]]; destruct (w_pc w); try discriminate;
    repeat match goal with |- context [match ?x with _ => _ end] => destruct x eqn:?; try discriminate end;
    intros H; injection H as <- <-; repeat split.
Qed.

(* ------------------------------------------------------------------ the per-worker invariant *)
Definition qrem (cfg : config) (w : worker) (n extra : nat) : Prop :=
  match c_quota cfg with Some k => exists r, w_quota w = Some r /\ r + n = k + extra | None => w_quota w = None end.
Definition qpos (w : worker) : Prop := match w_quota w with Some r => 1 <= r | None => True end.
Definition qle (cfg : config) (n : nat) : Prop := match c_quota cfg with Some k => n <= k | None => True end.

Definition WInv (cfg : config) (w : worker) : Prop :=
  match w_pc w with
  | WNew | WBegin => w_log w = [] /\ w_quota w = c_quota cfg /\ w_ready w = false
  | WIdle => exists n, w_log w = 0 :: repeat 1 n /\ qrem cfg w n 0 /\ w_ready w = true /\ qpos w
  | WHold _ _ => exists n, w_log w = 0 :: repeat 1 (S n) /\ qrem cfg w (S n) 1 /\ w_ready w = true /\ qpos w
  | WHoldR _ _ => exists n, w_log w = 0 :: repeat 1 (S n) /\ qrem cfg w (S n) 0 /\ w_ready w = true /\ w_quota w = Some 0
  | WEnding => exists n, w_log w = 0 :: repeat 1 n /\ qle cfg n
  | WDead => exists n, w_log w = 0 :: repeat 1 n ++ [2] /\ qle cfg n
  end.

Definition quota_ok (cfg : config) : Prop := match c_quota cfg with Some k => 1 <= k | None => True end.

Lemma repeat_snoc {A} (a : A) n : repeat a n ++ [a] = repeat a (S n).
Proof. symmetry. apply repeat_cons. Qed.

Lemma worker_step_winv cfg w kind r s w' s1 : quota_ok cfg -> WInv cfg w -> worker_step cfg w kind r s = Some (w', s1) -> WInv cfg w'.
Proof.
  intros Q I. unfold worker_step, WInv in *.
  destruct kind as [|[|[|[|[|[|?]]]]]]; destruct (w_pc w) eqn:Pc; try discriminate.
  - destruct I as (L & Qu & R). destruct r; intros H; injection H as <- <-; simpl; rewrite L; simpl.
    + exists 0. split; [reflexivity|]. unfold qle. destruct (c_quota cfg); auto. lia.
    + exists 0. split; [reflexivity|]. unfold qrem, qpos, quota_ok in *. simpl. rewrite Qu.
      destruct (c_quota cfg) as [k|]; repeat split; auto. exists k. split; auto.
  - destruct I as (n & L & Qr & R & Qp).
    destruct (s_workq s) as [|[i xs|] ?]; try discriminate; intros H; injection H as <- <-; simpl.
    + exists n. rewrite L. simpl. rewrite repeat_snoc. repeat split; auto.
      unfold qrem in *; simpl. destruct (c_quota cfg); auto. destruct Qr as (r0 & ? & ?). exists r0. split; auto. lia.
    + exists n. split; auto. unfold qle, qrem in *. destruct (c_quota cfg); auto. destruct Qr as (r0 & ? & ?). lia.
  - (* result, not the announced one *)
    destruct I as (n & L & Qr & R & Qp).
    destruct (c_factory cfg && _); try discriminate.
    destruct (full _ _); try discriminate; intros H; injection H as <- <-. unfold qrem, qpos, qle in *.
    destruct (c_quota cfg) as [k|].
    + destruct Qr as (r0 & Hq & Hr). rewrite Hq in *. simpl.
      destruct (r0 - 1) as [|m] eqn:E; simpl.
      * exists (S n); repeat split; auto; try lia.
      * exists (S n). repeat split; auto; try lia. exists (S m). split; [reflexivity | lia].
    + rewrite Qr. simpl. exists (S n). repeat split; auto.
  - (* result after the retirement notice *)
    destruct I as (n & L & Qr & R & Q0). destruct (full _ _); try discriminate; intros H; injection H as <- <-; simpl.
    exists (S n). split; auto. unfold qle, qrem in *. destruct (c_quota cfg); auto. destruct Qr as (r0 & Hq & ?). lia.
  - (* the retirement notice *)
    destruct I as (n & L & Qr & R & Qp). destruct (c_factory cfg && _) eqn:E; try discriminate. intros H; injection H as <- <-; simpl.
    exists n. repeat split; auto. unfold qrem in *. simpl. apply andb_true_iff in E. destruct E as [_ E].
    destruct (c_quota cfg) as [k|].
    + destruct Qr as (r0 & Hq & Hr). rewrite Hq in E. exists 0. split; auto. destruct r0 as [|[|?]]; try discriminate. lia.
    + rewrite Qr in E. discriminate.
  - destruct I as (n & L & Ql). intros H; injection H as <- <-; simpl. exists n. rewrite L. split; auto.
  - destruct I as (n & L & Qr & R & Qp). intros H; injection H as <- <-; simpl. exists (S n). split; auto.
    unfold qle, qrem, qpos in *. destruct (c_quota cfg); auto. destruct Qr as (r0 & Hq & ?). rewrite Hq in Qp. lia.
Qed.

(* ------------------------------------------------------------------ the lifecycle invariant of a pool state *)
Record LInv (cfg : config) (s : state) : Prop := {
  l_procs : Forall (WInv cfg) (s_procs s);
  l_retired : Forall (fun w => WInv cfg w /\ is_dead w = true) (s_retired s);
  l_rep0 : cur_class (s_main s) = 0 -> s_rep s = ROff;
  l_repnf : c_factory cfg = false -> s_rep s = ROff;
  l_exit : match s_main s with
           | MExitJoin k => forall j w, j < k -> nth_error (s_procs s) j = Some w -> is_dead w = true
           | MDone => Forall (fun w => is_dead w = true) (s_procs s)
           | _ => True end;
}.

Lemma Forall_prefix {A} (P : A -> Prop) (l : list A) n :
  (forall j w, j < n -> nth_error l j = Some w -> P w) -> length l <= n -> Forall P l.
Proof.
  intros H L. apply Forall_forall. intros x Hx. apply In_nth_error in Hx. destruct Hx as [j Hj].
  apply (H j); auto. assert (j < length l) by (apply nth_error_Some; congruence). lia.
Qed.

Ltac step_cases H :=
  unfold step in H;
  repeat match type of H with
         | context [match ?x with _ => _ end] => destruct x eqn:?; try discriminate
         end.

Lemma dead_no_step cfg w kind r s : is_dead w = true -> worker_step cfg w kind r s = None.
Proof.
  unfold is_dead, worker_step. destruct (w_pc w); try discriminate. intros _.
  destruct kind as [|[|[|[|[|[|?]]]]]]; reflexivity.
Qed.

Lemma linv_slot cfg s k kind r s' : quota_ok cfg -> LInv cfg s -> slot_step cfg s k kind r = Some s' -> LInv cfg s'.
Proof.
  intros Q [Lp Lr L0 Ln Le] H. apply slot_step_inv in H. destruct H as (w & w' & s1 & N & W & ->).
  pose proof (worker_step_frame _ _ _ _ _ _ _ W) as (F1 & F2 & F3 & F4 & F5 & F6 & F7 & F8).
  assert (Wi : WInv cfg w') by (eapply worker_step_winv; eauto; eapply Forall_nth_error; eauto).
  constructor; unfold with_procs; simpl; rewrite ?F1, ?F2, ?F3, ?F4; auto.
  - apply Forall_set_nth; auto.
  - assert (Nd : is_dead w = false).
    { destruct (is_dead w) eqn:D; auto. rewrite (dead_no_step cfg w kind r s D) in W. discriminate. }
    destruct (s_main s); auto.
    + intros j x Hj Hx. destruct (Nat.eq_dec j k) as [->|Hne].
      * specialize (Le k w Hj N). congruence.
      * rewrite nth_error_set_nth_neq in Hx by auto. eapply Le; eauto.
    + exfalso. pose proof (Forall_nth_error _ _ _ _ Le N) as D. simpl in D. congruence.
Qed.

Lemma linv_step cfg s e s' : quota_ok cfg -> LInv cfg s -> step cfg s e = Some s' -> LInv cfg s'.
Proof.
  intros Q I H.
  destruct e; try (eapply linv_slot; eauto; fail); destruct I as [Lp Lr L0 Ln Le]; step_cases H;
    injection H as <-; constructor; simpl; auto; try discriminate;
    try (intros C; try (pose proof (L0 C)); try (pose proof (Ln C)); congruence);
    try (intros j x Hj; lia).
  - apply Forall_set_nth; auto. pose proof (Forall_nth_error _ _ _ _ Lp Heqo) as Wi. unfold WInv in *. rewrite Heqw0 in Wi. simpl. tauto.
  - apply Forall_set_nth; auto. pose proof (Forall_nth_error _ _ _ _ Lp Heqo) as Wi. unfold WInv in *. rewrite Heqw0 in Wi. simpl. tauto.
  - intros j x Hj Hx. destruct (Nat.eq_dec j k) as [->|Hne]; [congruence|]. apply (Le j); auto. lia.
  - match goal with Hb : (_ <? _) = false |- _ => apply Nat.ltb_ge in Hb end. apply (Forall_prefix _ _ (S k)); auto.
    intros j x Hj Hx. destruct (Nat.eq_dec j k) as [->|Hne]; [congruence|]. apply (Le j); auto. lia.
  - apply nth_error_None in Heqo. apply (Forall_prefix _ _ k); auto.
  - apply Forall_set_nth; auto. unfold WInv; simpl. auto.
  - apply Forall_app. split; auto. constructor; auto. split; auto. eapply Forall_nth_error; eauto.
  - destruct (s_main s) eqn:M; auto; exfalso; specialize (L0 eq_refl); congruence.
Qed.

Lemma winv_new cfg wid : WInv cfg (new_worker cfg wid).
Proof. unfold WInv, new_worker; simpl. auto. Qed.

Lemma linv_init cfg hist : LInv cfg (init cfg hist).
Proof.
  constructor; simpl; auto. apply Forall_forall. intros w Hw. apply in_map_iff in Hw. destruct Hw as (i & <- & _). apply winv_new.
Qed.

Theorem linv_run cfg hist sched : quota_ok cfg -> LInv cfg (run cfg (init cfg hist) sched).
Proof.
  intros Q. unfold run.
  assert (G : forall sched s, LInv cfg s -> LInv cfg (fold_left (fun s e => match step cfg s e with Some s' => s' | None => s end) sched s)).
  { clear hist sched. induction sched as [|e r IH]; intros s I; simpl; [exact I|]. apply IH.
    destruct (step cfg s e) as [s'|] eqn:E; [eapply linv_step; eauto | exact I]. }
  apply G. apply linv_init.
Qed.

(* ------------------------------------------------------------------ what the invariant says about a worker's log *)
(* begin (0) at most once and before everything else, end (2) at most once and after everything else, items (1) between *)
Definition life_ok (l : list nat) : Prop := l = [] \/ exists n, l = 0 :: repeat 1 n \/ l = 0 :: repeat 1 n ++ [2].
Definition items (l : list nat) : nat := count_occ Nat.eq_dec l 1.

Lemma items_shape n tl : items (0 :: repeat 1 n ++ tl) = n + items tl.
Proof. unfold items. simpl. induction n as [|n IH]; simpl; auto. Qed.

Lemma winv_facts cfg w : WInv cfg w ->
  life_ok (w_log w)
  /\ (is_dead w = true <-> In 2 (w_log w))
  /\ (is_dead w = true -> exists n, w_log w = 0 :: repeat 1 n ++ [2])
  /\ (w_ready w = true -> exists l, w_log w = 0 :: l)
  /\ (forall k, c_quota cfg = Some k -> items (w_log w) <= k).
Proof.
  assert (N2 : forall n, ~ In 2 (0 :: repeat 1 n)).
  { intros n [H|H]; [discriminate|]. apply repeat_spec in H. discriminate. }
  assert (It : forall n, items (0 :: repeat 1 n) = n).
  { intros n. rewrite <- (app_nil_r (repeat 1 n)). rewrite items_shape. unfold items; simpl; lia. }
  assert (It2 : forall n, items (0 :: repeat 1 n ++ [2]) = n).
  { intros n. rewrite items_shape. unfold items; simpl; lia. }
  unfold WInv, life_ok, is_dead. intros I.
  destruct (w_pc w).
  - destruct I as (L & Qu & R). rewrite L, R. repeat split; try discriminate; auto; try (intros []); intros; unfold items; simpl; lia.
  - destruct I as (L & Qu & R). rewrite L, R. repeat split; try discriminate; auto; try (intros []); intros; unfold items; simpl; lia.
  - destruct I as (n & L & Qr & R & Qp). rewrite L. repeat split; try discriminate; eauto.
    + intros H; exfalso; eapply N2; eauto.
    + intros k Hk. rewrite It. unfold qrem in Qr. rewrite Hk in Qr. destruct Qr as (r0 & _ & ?). lia.
  - destruct I as (n & L & Qr & R & Qp). rewrite L. repeat split; try discriminate; eauto.
    + intros H; exfalso; eapply N2; eauto.
    + intros k Hk. rewrite It. unfold qrem, qpos in *. rewrite Hk in Qr. destruct Qr as (r0 & Hq & ?). rewrite Hq in Qp. lia.
  - destruct I as (n & L & Qr & R & Qp). rewrite L. repeat split; try discriminate; eauto.
    + intros H; exfalso; eapply N2; eauto.
    + intros k Hk. rewrite It. unfold qrem in Qr. rewrite Hk in Qr. destruct Qr as (r0 & _ & ?). lia.
  - destruct I as (n & L & Ql). rewrite L. repeat split; try discriminate; eauto.
    + intros H; exfalso; eapply N2; eauto.
    + intros k Hk. rewrite It. unfold qle in Ql. rewrite Hk in Ql. lia.
  - destruct I as (n & L & Ql). rewrite L. repeat split; eauto.
    + intros _. apply in_cons, in_or_app. right. left. reflexivity.
    + intros k Hk. rewrite It2. unfold qle in Ql. rewrite Hk in Ql. lia.
Qed.

(* ------------------------------------------------------------------ C04, for every configuration, history and schedule (faults included) *)
Definition all_workers (s : state) : list worker := s_procs s ++ s_retired s.

Lemma linv_all cfg s : LInv cfg s -> Forall (WInv cfg) (all_workers s).
Proof.
  intros [Lp Lr _ _ _]. apply Forall_app. split; auto. eapply Forall_impl; [|exact Lr]. simpl. tauto.
Qed.

Theorem lifecycle cfg hist sched : quota_ok cfg ->
  let s := run cfg (init cfg hist) sched in
  Forall (fun w => life_ok (w_log w)
                   /\ (is_dead w = true <-> In 2 (w_log w))
                   /\ (forall k, c_quota cfg = Some k -> items (w_log w) <= k)) (all_workers s)
  /\ Forall (fun w => is_dead w = true) (s_retired s)
  /\ (s_main s = MDone -> Forall (fun w => is_dead w = true) (all_workers s)).
Proof.
  intros Q s. pose proof (linv_run cfg hist sched Q) as I. fold s in I. split; [|split].
  - eapply Forall_impl; [|apply (linv_all cfg s I)]. intros w Wi. apply winv_facts in Wi. tauto.
  - destruct I as [_ Lr _ _ _]. eapply Forall_impl; [|exact Lr]. simpl. tauto.
  - intros M. destruct I as [_ Lr _ _ Le]. rewrite M in Le. apply Forall_app. split; auto.
    eapply Forall_impl; [|exact Lr]. simpl. tauto.
Qed.

(* until_all_ready() returns only in a state in which begin() of every current worker has completed normally *)
Theorem ready_sound cfg hist sched s' : quota_ok cfg ->
  let s := run cfg (init cfg hist) sched in
  step cfg s EReady = Some s' ->
  Forall (fun w => w_ready w = true /\ (exists l, w_log w = 0 :: l) /\ w_pc w <> WNew /\ w_pc w <> WBegin) (s_procs s).
Proof.
  intros Q s H. pose proof (linv_run cfg hist sched Q) as I. fold s in I. unfold step in H.
  destruct (s_main s); try discriminate. destruct (s_todo s) as [|[|] ?]; try discriminate.
  destruct (forallb w_ready (s_procs s)) eqn:F; [|discriminate]. rewrite forallb_forall in F.
  apply Forall_forall. intros w Hw. specialize (F w Hw). split; auto.
  destruct I as [Lp _ _ _ _]. rewrite Forall_forall in Lp. specialize (Lp w Hw).
  split; [apply (winv_facts cfg w Lp); auto|]. unfold WInv in Lp.
  split; intros E; rewrite E in Lp; destruct Lp as (_ & _ & R); congruence.
Qed.

(* the flag behind until_all_ready is set by a begin() that returned, never by one that raised *)
Theorem begin_fault_not_ready cfg s k s' w' : step cfg s (EWBegin k true) = Some s' -> nth_error (s_procs s') k = Some w' ->
  w_ready w' = false /\ w_pc w' = WEnding.
Proof.
  intros H N. simpl in H. apply slot_step_inv in H. destruct H as (w & w2 & s1 & Nw & W & ->).
  pose proof (worker_step_frame _ _ _ _ _ _ _ W) as (F1 & _). unfold with_procs in N; simpl in N. rewrite F1 in N.
  rewrite (nth_error_set_nth_eq _ _ _ _ Nw) in N. injection N as <-.
  unfold worker_step in W. destruct (w_pc w); try discriminate. injection W as <- <-. auto.
Qed.

(* end() follows every way out of the work loop: a worker that has left the loop (stop order, quota, begin() or functor raised)
   can always take its end step, whatever the rest of the pool does, and that step closes its log *)
Theorem end_always_enabled cfg s k w : nth_error (s_procs s) k = Some w -> w_pc w = WEnding ->
  exists s' w', step cfg s (EWEnd k) = Some s' /\ nth_error (s_procs s') k = Some w' /\ w_log w' = w_log w ++ [2] /\ is_dead w' = true.
Proof.
  intros N Pc. simpl. unfold slot_step. rewrite N. unfold worker_step. rewrite Pc. eexists. eexists. split; [reflexivity|].
  unfold with_procs; simpl. rewrite (nth_error_set_nth_eq _ _ _ _ N). auto.
Qed.

Theorem fault_leads_to_end cfg s k s' : step cfg s (EWFault k) = Some s' ->
  exists w', nth_error (s_procs s') k = Some w' /\ w_pc w' = WEnding.
Proof.
  intros H. simpl in H. apply slot_step_inv in H. destruct H as (w & w2 & s1 & Nw & W & ->).
  pose proof (worker_step_frame _ _ _ _ _ _ _ W) as (F1 & _). unfold with_procs; simpl. rewrite F1.
  rewrite (nth_error_set_nth_eq _ _ _ _ Nw). eexists. split; [reflexivity|].
  unfold worker_step in W. destruct (w_pc w); try discriminate. injection W as <- <-. reflexivity.
Qed.
