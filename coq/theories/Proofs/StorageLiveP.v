(* Progress of the storage LTS (C14): whenever some process still has an operation to run, some process can make a step
   (the lock is always released by its holder), and every step decreases a measure - so every operation completes. *)
From Coq Require Import ZArith List Bool Arith Lia.
From WPU Require Import Common.Val Model.Pool Model.Storage Proofs.PoolLifeP Proofs.PoolLiveP Proofs.StorageP.
Import ListNotations.
Open Scope nat_scope.

Theorem storage_no_deadlock s : SAll s -> (exists p pr, nth_error (ss_procs s) p = Some pr /\ p_todo pr <> []) ->
  exists q, sstep s q <> None.
Proof.
  intros [A B C] (p & pr & N & Ht).
  assert (Step : forall q prq, nth_error (ss_procs s) q = Some prq -> p_todo prq <> [] ->
            (ss_lock s = Some q \/ (ss_lock s = None)) -> sstep s q <> None).
  { intros q prq Nq Htq Hl. destruct (a_prog _ A q prq Nq) as (Fo & Hh & Hw). pose proof (a_lock _ A q prq Nq) as Lq.
    unfold sstep. rewrite Nq. unfold lock_free_for.
    destruct (p_pc prq) eqn:Pc; simpl in *.
    - (* idle *) assert (Lk : ss_lock s = None) by (destruct Hl as [Hl|Hl]; auto; apply Lq in Hl; discriminate). rewrite Lk.
      destruct (p_todo prq) as [|[g t|g| | |] rest]; [contradiction| | | | |]; try discriminate. destruct (p_wid prq); discriminate.
    - destruct Hh as (rest & ->). destruct (idx_get (extend (ss_index s) g) g); [discriminate|]. destruct (p_wid prq); [discriminate | discriminate Hw].
    - discriminate.
    - destruct (g =? ss_wf s); discriminate.
    - destruct (_ && _); discriminate.
    - destruct (p_wid prq); [discriminate | discriminate Hw].
    - destruct Hh as (rest & ->). discriminate.
    - destruct Hh as (rest & ->). destruct (idx_get (ss_index s) g) as [[w off]|]; discriminate.
    - destruct Hh as (rest & ->). discriminate.
    - destruct Hh as (rest & ->). discriminate. }
  destruct (ss_lock s) as [o|] eqn:Lk.
  - destruct (a_lock_some _ A o Lk) as (pro & No). exists o. apply (Step o pro No); auto.
    pose proof (a_lock _ A o pro No) as Lo. apply Lo in Lk. destruct (a_prog _ A o pro No) as (_ & Hh & _).
    destruct (p_pc pro); try discriminate; destruct Hh as (rest & ->); discriminate.
  - exists p. apply (Step p pr N Ht). right. reflexivity.
Qed.

(* ------------------------------------------------------------------ measure *)
Definition op_w (o : sop) : nat := match o with SWrite _ _ => 8 | SRead _ => 4 | SLen => 1 | SContig => 2 | SIter => 1 end.
Definition pc_w (pc : spc) : nat :=
  match pc with PIdle => 0 | PW1 _ _ => 6 | PW2 _ _ => 5 | PW3 _ _ => 4 | PW3L _ _ => 3 | PW4 _ _ => 2 | PW5 _ _ => 1
              | PR1 _ => 2 | PR2 _ _ _ => 1 | PC2 _ => 1 end.
Definition todo_w (l : list sop) : nat := list_sum (map op_w l).
Definition proc_m (pr : sproc) : nat :=
  (match p_wid pr with None => 1 | Some _ => 0 end) +
  match p_pc pr with
  | PIdle => todo_w (p_todo pr)
  | pc => pc_w pc + todo_w (tl (p_todo pr))
  end.
Definition is_write (o : sop) : nat := match o with SWrite _ _ => 1 | _ => 0 end.
Definition pend_w (pr : sproc) : nat :=
  list_sum (map is_write (match p_pc pr with PW2 _ _ | PW3 _ _ | PW3L _ _ | PW4 _ _ | PW5 _ _ => tl (p_todo pr) | _ => p_todo pr end)).
Definition lsum {A} (f : A -> nat) (l : list A) : nat := list_sum (map f l).
Definition smu (s : sstate) : nat :=
  lsum proc_m (ss_procs s) + 2 * ((length (ss_texts s) + lsum pend_w (ss_procs s)) - ss_wf s).

Lemma lsum_set_nth {A} (f : A -> nat) l k w w' : nth_error l k = Some w -> lsum f (set_nth k w' l) + f w = lsum f l + f w'.
Proof.
  unfold lsum. revert k; induction l as [|a l IH]; intros [|k] H; simpl in *; try discriminate.
  - injection H as ->. lia.
  - specialize (IH k H). lia.
Qed.

Lemma wf_le_texts s : SAll s -> ss_wf s <= length (ss_texts s).
Proof.
  intros [A B C]. rewrite <- (map_length fst). apply seq_incl_length; [apply (b_nd _ B)|].
  intros i Hi. apply (b_idx _ B). apply (c_below _ C). exact Hi.
Qed.
Lemma cnt_le_texts s : SAll s -> ss_cnt s <= length (ss_texts s).
Proof. intros SA. apply len_bounds. exact SA. Qed.

Theorem smu_step s p s' : SAll s -> sstep s p = Some s' -> smu s' < smu s.
Proof.
  intros SA H. pose proof (wf_le_texts s SA) as Hwf. pose proof (cnt_le_texts s SA) as Hcnt.
  destruct SA as [A B C]. destruct (sstep_procs s p s' H) as (pr & N & _).
  destruct (a_prog _ A p pr N) as (_ & Hh & _).
  pose proof (lsum_set_nth proc_m (ss_procs s) p pr) as L1. pose proof (lsum_set_nth pend_w (ss_procs s) p pr) as L2.
  sstep_cases H N; unfold lock_free_for, upd_proc, finish in *; simpl in *; unfold smu; simpl;
    try (match goal with |- context [set_nth p ?x (ss_procs s)] => specialize (L1 x N); specialize (L2 x N) end);
    unfold proc_m, pend_w in *; simpl in *;
    repeat match goal with Hp : p_pc _ = _ |- _ => rewrite Hp in * end;
    repeat match goal with Hp : p_todo _ = _ |- _ => rewrite Hp in * end;
    repeat match goal with Hp : p_wid _ = _ |- _ => rewrite Hp in * end;
    simpl in *; unfold todo_w in *; simpl in *; rewrite ?app_length; simpl; try lia.
  destruct Hh as (rest & E). injection E as -> _. simpl in *. lia.
Qed.

Fixpoint sdrive (pick : sstate -> nat) (n : nat) (s : sstate) : sstate :=
  match n with
  | O => s
  | S n' => match sstep s (pick s) with Some s' => sdrive pick n' s' | None => s end
  end.

(* under every scheduler that picks a process that can move whenever there is one, every program runs to completion *)
Theorem storage_terminates presize progs pick : progs_ok progs ->
  (forall s, (exists q, sstep s q <> None) -> sstep s (pick s) <> None) ->
  let s := sdrive pick (smu (sinit presize progs)) (sinit presize progs) in
  SAll s /\ forall p pr, nth_error (ss_procs s) p = Some pr -> p_todo pr = [].
Proof.
  intros Ok Pe.
  assert (G : forall n s, SAll s -> smu s <= n ->
             SAll (sdrive pick n s) /\ forall p pr, nth_error (ss_procs (sdrive pick n s)) p = Some pr -> p_todo pr = []).
  { induction n as [|n IH]; intros s SA Hm; simpl.
    - split; auto. intros p pr N. destruct (p_todo pr) eqn:T; auto. exfalso.
      destruct (storage_no_deadlock s SA) as (q & Hq); [exists p, pr; split; auto; congruence|].
      destruct (sstep s q) as [s'|] eqn:E; [|contradiction]. pose proof (smu_step s q s' SA E). lia.
    - destruct (sstep s (pick s)) as [s'|] eqn:E.
      + apply IH; [eapply sall_step; eauto|]. pose proof (smu_step s (pick s) s' SA E). lia.
      + split; auto. intros p pr N. destruct (p_todo pr) eqn:T; auto. exfalso. apply (Pe s); auto.
        apply (storage_no_deadlock s SA). exists p, pr. split; auto. congruence. }
  intros s. apply G; [apply sall_init; auto | lia].
Qed.
