(* Proofs about Model/Storage.v (property C14): for every set of process programs and every interleaving. *)
From Coq Require Import ZArith List Bool Arith Lia Permutation.
From WPU Require Import Common.Val Common.ListX Model.Pool Model.Storage Proofs.PoolLifeP Proofs.PoolLiveP.
Import ListNotations.
Open Scope nat_scope.

(* ------------------------------------------------------------------ index *)
Definition stored (idx : list (option (nat * nat))) (g : nat) : Prop := exists e, idx_get idx g = Some e.

Lemma idx_get_extend idx g i : idx_get (extend idx g) i = idx_get idx i.
Proof.
  unfold extend, idx_get. destruct (length idx <=? g) eqn:E; auto. apply Nat.leb_le in E.
  destruct (Nat.lt_ge_cases i (length idx)) as [H|H].
  - rewrite nth_error_app1 by auto. reflexivity.
  - rewrite nth_error_app2 by auto. rewrite (proj2 (nth_error_None idx i)) by auto.
    destruct (nth_error (repeat None (g - length idx + 1)) (i - length idx)) as [o|] eqn:N; auto.
    apply nth_error_In in N. apply repeat_spec in N. subst. reflexivity.
Qed.
Lemma extend_length idx g : g < length (extend idx g).
Proof.
  unfold extend. destruct (length idx <=? g) eqn:E; [apply Nat.leb_le in E | apply Nat.leb_gt in E; auto].
  rewrite app_length, repeat_length. lia.
Qed.
Lemma idx_get_set idx g e i : g < length idx -> idx_get (set_nth g (Some e) idx) i = if i =? g then Some e else idx_get idx i.
Proof.
  intros H. unfold idx_get. destruct (i =? g) eqn:E.
  - apply Nat.eqb_eq in E. subst. destruct (nth_error idx g) eqn:N; [|apply nth_error_None in N; lia].
    rewrite (nth_error_set_nth_eq _ _ _ _ N). reflexivity.
  - apply Nat.eqb_neq in E. rewrite nth_error_set_nth_neq by auto. reflexivity.
Qed.
Lemma idx_get_lt idx g e : idx_get idx g = Some e -> g < length idx.
Proof. unfold idx_get. intros H. apply nth_error_Some. destruct (nth_error idx g); [discriminate | discriminate]. Qed.

(* ------------------------------------------------------------------ files: a complete line at an offset *)
Definition text_ok (t : list Z) : Prop := ~ In 10%Z t /\ ~ In 13%Z t.
Definition written (f : list Z) (off : nat) (t : list Z) : Prop :=
  exists pre post, f = pre ++ t ++ [10%Z] ++ post /\ length pre = off.

Lemma take_line_app t post : ~ In 10%Z t -> take_line (t ++ [10%Z] ++ post) = t.
Proof.
  induction t as [|c t IH]; intros H; simpl; auto.
  destruct (c =? 10)%Z eqn:E; [apply Z.eqb_eq in E; exfalso; apply H; left; auto|]. f_equal. apply IH. intros Hi. apply H. right. exact Hi.
Qed.
Lemma rstrip_cr_none l : ~ In 13%Z l -> rstrip_cr l = l.
Proof.
  destruct l as [|c t]; simpl; auto. intros H. destruct (c =? 13)%Z eqn:E; auto. apply Z.eqb_eq in E. exfalso. apply H. left. auto.
Qed.
Lemma line_at_written f off t : text_ok t -> written f off t -> line_at f off = t.
Proof.
  intros [H10 H13] (pre & post & -> & <-). unfold line_at. rewrite skipn_app, skipn_all, Nat.sub_diag. simpl skipn.
  change ([] ++ t ++ 10%Z :: post) with (t ++ [10%Z] ++ post). rewrite (take_line_app t post H10). rewrite rstrip_cr_none; [apply rev_involutive|]. rewrite <- in_rev. exact H13.
Qed.
Lemma written_app f x off t : written f off t -> written (f ++ x) off t.
Proof. intros (pre & post & -> & L). exists pre, (post ++ x). split; auto. simpl. rewrite <- !app_assoc. simpl. reflexivity. Qed.
Lemma written_new f t : written (f ++ t ++ [10%Z]) (length f) t.
Proof. exists f, []. split; auto. Qed.

(* ------------------------------------------------------------------ structure: the lock, the programs *)
Definition locked_pc (pc : spc) : bool := match pc with PIdle | PR2 _ _ _ | PC2 _ => false | _ => true end.
Definition op_ok (o : sop) : Prop := match o with SWrite _ t => text_ok t | _ => True end.
Definition pc_head (pc : spc) (todo : list sop) : Prop :=
  match pc with
  | PIdle => True
  | PW1 g t | PW2 g t | PW3 g t | PW3L g t | PW4 g t | PW5 g t => exists rest, todo = SWrite g t :: rest
  | PR1 g | PR2 g _ _ => exists rest, todo = SRead g :: rest
  | PC2 _ => exists rest, todo = SContig :: rest
  end.
Definition writing_pc (pc : spc) : bool := match pc with PW1 _ _ | PW2 _ _ | PW3 _ _ | PW3L _ _ | PW4 _ _ | PW5 _ _ => true | _ => false end.

Record AInv (s : sstate) : Prop := {
  a_lock : forall p pr, nth_error (ss_procs s) p = Some pr -> (locked_pc (p_pc pr) = true <-> ss_lock s = Some p);
  a_lock_some : forall p, ss_lock s = Some p -> exists pr, nth_error (ss_procs s) p = Some pr;
  a_prog : forall p pr, nth_error (ss_procs s) p = Some pr ->
             Forall op_ok (p_todo pr) /\ pc_head (p_pc pr) (p_todo pr)
             /\ (match p_wid pr with Some w => w < length (ss_files s) | None => writing_pc (p_pc pr) = false end);
}.

(* the shape of every step: process p moves from pr to pr', the other processes are untouched *)
Lemma sstep_procs s p s' : sstep s p = Some s' ->
  exists pr, nth_error (ss_procs s) p = Some pr /\ (ss_procs s' = ss_procs s \/ exists pr', ss_procs s' = set_nth p pr' (ss_procs s)).
Proof.
  unfold sstep. destruct (nth_error (ss_procs s) p) as [pr|] eqn:N; [|discriminate]. intros H. exists pr. split; auto.
  repeat match type of H with context [match ?x with _ => _ end] => destruct x eqn:?; try discriminate end;
    injection H as <-; simpl; eauto.
Qed.

Ltac sstep_cases H N :=
  unfold sstep in H; rewrite N in H;
  repeat match type of H with context [match ?x with _ => _ end] => destruct x eqn:?; try discriminate end;
  injection H as <-.

Lemma ainv_step s p s' : AInv s -> sstep s p = Some s' -> AInv s'.
Proof.
  intros [Al As Ap] H. destruct (sstep_procs s p s' H) as (pr & N & _).
  pose proof (Al p pr N) as Alp. pose proof (Ap p pr N) as (Apo & Aph & Apw).
  assert (Oth : forall q x prq, q <> p -> nth_error (set_nth p x (ss_procs s)) q = Some prq -> nth_error (ss_procs s) q = Some prq).
  { intros q x prq Hq Hn. rewrite nth_error_set_nth_neq in Hn; auto. }
  sstep_cases H N; unfold lock_free_for, upd_proc, finish in *; simpl in *.
  all: constructor; simpl.
  (* a_lock *)
  all: try (intros q prq Hq; try (apply nth_set_nth_cases in Hq; destruct Hq as [[-> ->]|[Hne Hq]]); simpl;
            try (pose proof (Al q prq Hq) as Alq); destruct (ss_lock s) eqn:Lk; try discriminate;
            try (destruct (Nat.eq_dec q p) as [->|Hne']; [assert (prq = pr) by congruence; subst prq|]);
            repeat match goal with Hp : p_pc _ = _ |- _ => rewrite Hp in * end; simpl in *; intuition congruence).
  (* a_lock_some *)
  all: try (intros q Hq; try (injection Hq as <-);
            first [ solve [discriminate]
                  | solve [rewrite (nth_error_set_nth_eq _ _ _ _ N); eauto]
                  | solve [destruct (Nat.eq_dec q p) as [->|Hne]; [rewrite (nth_error_set_nth_eq _ _ _ _ N); eauto | rewrite nth_error_set_nth_neq by auto; apply As; auto]]
                  | solve [apply As; auto] ]).
  (* a_prog *)
  all: intros q prq Hq; try (apply nth_set_nth_cases in Hq; destruct Hq as [[-> ->]|[Hne Hq]]); simpl.
  all: try (destruct (Ap q prq Hq) as (F & Hh & W); repeat split; auto; destruct (p_wid prq); auto;
            rewrite ?app_length, ?set_nth_length; simpl; lia).
  all: repeat match goal with Hp : p_todo _ = _ |- _ => rewrite Hp in * end;
       repeat match goal with Hp : p_wid _ = _ |- _ => rewrite Hp in * end; simpl in *.
  all: try (repeat split; eauto; rewrite ?app_length, ?set_nth_length; simpl; try lia; try (inversion Apo; auto; fail); fail).
  all: split; [inversion Apo; auto|]; split; auto; destruct (p_wid pr); auto.
Qed.
