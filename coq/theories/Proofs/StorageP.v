(* Proofs about Model/Storage.v (property C14): for every set of process programs and every interleaving. *)
From Coq Require Import ZArith List Bool Arith Lia Permutation.
From WPU Require Import Common.Val Common.ListX Model.Pool Model.Storage Proofs.PoolLifeP Proofs.PoolLiveP.
Import ListNotations.
Open Scope nat_scope.

(* ------------------------------------------------------------------ index *)
Definition stored (idx : list (option (nat * nat))) (g : nat) : Prop := exists e, idx_get idx g = Some e.

Lemma idx_get_extend idx g i : idx_get (extend idx g) i = idx_get idx i.
Proof.
  unfold extend, idx_get. destruct (length idx <=? g) eqn:E; auto. apply Nat.leb_le in E.
  destruct (Nat.lt_ge_cases i (length idx)) as [H|H].
  - rewrite nth_error_app1 by auto. reflexivity.
  - rewrite nth_error_app2 by auto. rewrite (proj2 (nth_error_None idx i)) by auto.
    destruct (nth_error (repeat None (g - length idx + 1)) (i - length idx)) as [o|] eqn:N; auto.
    apply nth_error_In in N. apply repeat_spec in N. subst. reflexivity.
Qed.
Lemma extend_length idx g : g < length (extend idx g).
Proof.
  unfold extend. destruct (length idx <=? g) eqn:E; [apply Nat.leb_le in E | apply Nat.leb_gt in E; auto].
  rewrite app_length, repeat_length. lia.
Qed.
Lemma idx_get_set idx g e i : g < length idx -> idx_get (set_nth g (Some e) idx) i = if i =? g then Some e else idx_get idx i.
Proof.
  intros H. unfold idx_get. destruct (i =? g) eqn:E.
  - apply Nat.eqb_eq in E. subst. destruct (nth_error idx g) eqn:N; [|apply nth_error_None in N; lia].
    rewrite (nth_error_set_nth_eq _ _ _ _ N). reflexivity.
  - apply Nat.eqb_neq in E. rewrite nth_error_set_nth_neq by auto. reflexivity.
Qed.
Lemma idx_get_lt idx g e : idx_get idx g = Some e -> g < length idx.
Proof. unfold idx_get. intros H. apply nth_error_Some. destruct (nth_error idx g); [discriminate | discriminate]. Qed.

(* ------------------------------------------------------------------ files: a complete line at an offset *)
Definition text_ok (t : list Z) : Prop := ~ In 10%Z t /\ ~ In 13%Z t.
Definition written (f : list Z) (off : nat) (t : list Z) : Prop :=
  exists pre post, f = pre ++ t ++ [10%Z] ++ post /\ length pre = off.

Lemma take_line_app t post : ~ In 10%Z t -> take_line (t ++ [10%Z] ++ post) = t.
Proof.
  induction t as [|c t IH]; intros H; simpl; auto.
  destruct (c =? 10)%Z eqn:E; [apply Z.eqb_eq in E; exfalso; apply H; left; auto|]. f_equal. apply IH. intros Hi. apply H. right. exact Hi.
Qed.
Lemma rstrip_cr_none l : ~ In 13%Z l -> rstrip_cr l = l.
Proof.
  destruct l as [|c t]; simpl; auto. intros H. destruct (c =? 13)%Z eqn:E; auto. apply Z.eqb_eq in E. exfalso. apply H. left. auto.
Qed.
Lemma line_at_written f off t : text_ok t -> written f off t -> line_at f off = t.
Proof.
  intros [H10 H13] (pre & post & -> & <-). unfold line_at. rewrite skipn_app, skipn_all, Nat.sub_diag. simpl skipn.
  change ([] ++ t ++ 10%Z :: post) with (t ++ [10%Z] ++ post). rewrite (take_line_app t post H10). rewrite rstrip_cr_none; [apply rev_involutive|]. rewrite <- in_rev. exact H13.
Qed.
Lemma written_app f x off t : written f off t -> written (f ++ x) off t.
Proof. intros (pre & post & -> & L). exists pre, (post ++ x). split; auto. simpl. rewrite <- !app_assoc. simpl. reflexivity. Qed.
Lemma written_new f t : written (f ++ t ++ [10%Z]) (length f) t.
Proof. exists f, []. split; auto. Qed.

(* ------------------------------------------------------------------ structure: the lock, the programs *)
Definition locked_pc (pc : spc) : bool := match pc with PIdle | PR2 _ _ _ | PC2 _ => false | _ => true end.
Definition op_ok (o : sop) : Prop := match o with SWrite _ t => text_ok t | _ => True end.
Definition pc_head (pc : spc) (todo : list sop) : Prop :=
  match pc with
  | PIdle => True
  | PW1 g t | PW2 g t | PW3 g t | PW3L g t | PW4 g t | PW5 g t => exists rest, todo = SWrite g t :: rest
  | PR1 g | PR2 g _ _ => exists rest, todo = SRead g :: rest
  | PC2 _ => exists rest, todo = SContig :: rest
  end.
Definition writing_pc (pc : spc) : bool := match pc with PW1 _ _ | PW2 _ _ | PW3 _ _ | PW3L _ _ | PW4 _ _ | PW5 _ _ => true | _ => false end.

Record AInv (s : sstate) : Prop := {
  a_lock : forall p pr, nth_error (ss_procs s) p = Some pr -> (locked_pc (p_pc pr) = true <-> ss_lock s = Some p);
  a_lock_some : forall p, ss_lock s = Some p -> exists pr, nth_error (ss_procs s) p = Some pr;
  a_prog : forall p pr, nth_error (ss_procs s) p = Some pr ->
             Forall op_ok (p_todo pr) /\ pc_head (p_pc pr) (p_todo pr)
             /\ (match p_wid pr with Some w => w < length (ss_files s) | None => writing_pc (p_pc pr) = false end);
}.

(* the shape of every step: process p moves from pr to pr', the other processes are untouched *)
Lemma sstep_procs s p s' : sstep s p = Some s' ->
  exists pr, nth_error (ss_procs s) p = Some pr /\ (ss_procs s' = ss_procs s \/ exists pr', ss_procs s' = set_nth p pr' (ss_procs s)).
Proof.
  unfold sstep. destruct (nth_error (ss_procs s) p) as [pr|] eqn:N; [|discriminate]. intros H. exists pr. split; auto.
  repeat match type of H with context [match ?x with _ => _ end] => destruct x eqn:?; try discriminate end;
    injection H as <-; simpl; eauto.
Qed.

Ltac sstep_cases H N :=
  unfold sstep in H; rewrite N in H;
  repeat match type of H with context [match ?x with _ => _ end] => destruct x eqn:?; try discriminate end;
  injection H as <-.

Lemma ainv_step s p s' : AInv s -> sstep s p = Some s' -> AInv s'.
Proof.
  intros [Al As Ap] H. destruct (sstep_procs s p s' H) as (pr & N & _).
  pose proof (Al p pr N) as Alp. pose proof (Ap p pr N) as (Apo & Aph & Apw).
  assert (Oth : forall q x prq, q <> p -> nth_error (set_nth p x (ss_procs s)) q = Some prq -> nth_error (ss_procs s) q = Some prq).
  { intros q x prq Hq Hn. rewrite nth_error_set_nth_neq in Hn; auto. }
  sstep_cases H N; unfold lock_free_for, upd_proc, finish in *; simpl in *.
  all: constructor; simpl.
  (* a_lock *)
  all: try (intros q prq Hq; try (apply nth_set_nth_cases in Hq; destruct Hq as [[-> ->]|[Hne Hq]]); simpl;
            try (pose proof (Al q prq Hq) as Alq); destruct (ss_lock s) eqn:Lk; try discriminate;
            try (destruct (Nat.eq_dec q p) as [->|Hne']; [assert (prq = pr) by congruence; subst prq|]);
            repeat match goal with Hp : p_pc _ = _ |- _ => rewrite Hp in * end; simpl in *; intuition congruence).
  (* a_lock_some *)
  all: try (intros q Hq; try (injection Hq as <-);
            first [ solve [discriminate]
                  | solve [rewrite (nth_error_set_nth_eq _ _ _ _ N); eauto]
                  | solve [destruct (Nat.eq_dec q p) as [->|Hne]; [rewrite (nth_error_set_nth_eq _ _ _ _ N); eauto | rewrite nth_error_set_nth_neq by auto; apply As; auto]]
                  | solve [apply As; auto] ]).
  (* a_prog *)
  all: intros q prq Hq; try (apply nth_set_nth_cases in Hq; destruct Hq as [[-> ->]|[Hne Hq]]); simpl.
  all: try (destruct (Ap q prq Hq) as (F & Hh & W); repeat split; auto; destruct (p_wid prq); auto;
            rewrite ?app_length, ?set_nth_length; simpl; lia).
  all: repeat match goal with Hp : p_todo _ = _ |- _ => rewrite Hp in * end;
       repeat match goal with Hp : p_wid _ = _ |- _ => rewrite Hp in * end; simpl in *.
  all: try (repeat split; eauto; rewrite ?app_length, ?set_nth_length; simpl; try lia; try (inversion Apo; auto; fail); fail).
  all: split; [inversion Apo; auto|]; split; auto; destruct (p_wid pr); auto.
Qed.

(* ------------------------------------------------------------------ index, texts, files, readers, outputs *)
Definition wpc_of (pc : spc) : option (nat * list Z) :=
  match pc with PW2 g t | PW3 g t | PW3L g t | PW4 g t | PW5 g t => Some (g, t) | _ => None end.
Definition pending_pc (pc : spc) (g : nat) (t : list Z) : Prop := pc = PW2 g t \/ pc = PW3 g t \/ pc = PW3L g t \/ pc = PW4 g t.

Definition files_ok (s : sstate) : Prop :=
  forall g t, In (g, t) (ss_texts s) -> exists w off, idx_get (ss_index s) g = Some (w, off) /\
    (written (nth w (ss_files s) []) off t
     \/ (off = length (nth w (ss_files s) []) /\ exists p pr, ss_lock s = Some p /\ nth_error (ss_procs s) p = Some pr
                                                   /\ p_wid pr = Some w /\ pending_pc (p_pc pr) g t)).
Definition out_spec (texts : list (nat * list Z)) (o : sop) (r : sres) : Prop :=
  match o with
  | SRead g => r = RIndexError \/ exists t, r = RText t /\ In (g, t) texts
  | SWrite g t => (r = RUnit /\ In (g, t) texts) \/ (r = RValueError /\ In g (map fst texts))
  | _ => True end.
Record BInv (s : sstate) : Prop := {
  b_nd : NoDup (map fst (ss_texts s));
  b_idx : forall g, stored (ss_index s) g <-> In g (map fst (ss_texts s));
  b_tok : Forall (fun e => text_ok (snd e)) (ss_texts s);
  b_files : files_ok s;
  b_wpc : forall p pr g t, nth_error (ss_procs s) p = Some pr -> wpc_of (p_pc pr) = Some (g, t) -> In (g, t) (ss_texts s);
  b_rd : forall p pr g w off, nth_error (ss_procs s) p = Some pr -> p_pc pr = PR2 g w off ->
           exists t, In (g, t) (ss_texts s) /\ written (nth w (ss_files s) []) off t;
  b_out : forall p pr o r, nth_error (ss_procs s) p = Some pr -> In (o, r) (p_out pr) -> out_spec (ss_texts s) o r;
}.
Lemma out_mono texts texts' o r : (forall x, In x texts -> In x texts') -> out_spec texts o r -> out_spec texts' o r.
Proof.
  intros M. unfold out_spec. destruct o; auto.
  - intros [[-> H]|[-> H]]; [left; auto | right; split; auto]. apply in_map_iff in H. destruct H as (x & <- & Hx). apply in_map. auto.
  - intros [->|(t0 & -> & H)]; [left; auto | right; eauto].
Qed.

Lemma written_nonempty_file files w off t : written (nth w files []) off t -> w < length files.
Proof.
  intros (pre & post & E & _). destruct (Nat.lt_ge_cases w (length files)); auto. rewrite nth_overflow in E by auto.
  destruct pre; destruct t; discriminate.
Qed.
Lemma nth_set_nth_same {A} (l : list A) k x d : k < length l -> nth k (set_nth k x l) d = x.
Proof. revert k; induction l as [|a l IH]; intros [|k] H; simpl in *; try lia; auto. apply IH. lia. Qed.
Lemma nth_set_nth_other {A} (l : list A) k j x d : j <> k -> nth j (set_nth k x l) d = nth j l d.
Proof. revert k j; induction l as [|a l IH]; intros [|k] [|j] H; simpl in *; auto; try contradiction. Qed.

Lemma written_files_app files w off t : written (nth w files []) off t -> written (nth w (files ++ [[]]) []) off t.
Proof. intros H. pose proof (written_nonempty_file _ _ _ _ H). rewrite app_nth1 by auto. exact H. Qed.
Lemma written_files_set files w0 w off t x : written (nth w0 files []) off t ->
  written (nth w0 (set_nth w (nth w files [] ++ x) files) []) off t.
Proof.
  intros H. pose proof (written_nonempty_file _ _ _ _ H). destruct (Nat.eq_dec w0 w) as [->|Hne].
  - rewrite nth_set_nth_same by auto. apply written_app. exact H.
  - rewrite nth_set_nth_other by auto. exact H.
Qed.

Lemma files_local s s' p pr pr' : AInv s -> files_ok s -> nth_error (ss_procs s) p = Some pr ->
  ss_index s' = ss_index s -> ss_files s' = ss_files s -> ss_texts s' = ss_texts s -> ss_procs s' = set_nth p pr' (ss_procs s) ->
  p_wid pr' = p_wid pr -> (forall g t, pending_pc (p_pc pr) g t -> pending_pc (p_pc pr') g t) ->
  (ss_lock s' = ss_lock s \/ ss_lock s = None \/ (ss_lock s = Some p /\ forall g t, ~ pending_pc (p_pc pr) g t)) -> files_ok s'.
Proof.
  intros AI Bf N E1 E2 E3 E4 Ew Hp Hl g t Hin. rewrite E3 in Hin. destruct (Bf g t Hin) as (w & off & Hi & [Hw|(Ho & p0 & pr0 & Hl0 & Hn0 & Hwid & Hpe)]);
    exists w, off; rewrite E1, E2; (split; [exact Hi|]); [left; exact Hw|].
  right. split; auto. destruct (Nat.eq_dec p0 p) as [->|Hne].
  - assert (pr0 = pr) by congruence. subst pr0. exists p, pr'. rewrite E4, (nth_error_set_nth_eq _ _ _ _ N). repeat split; auto; try congruence.
    destruct Hl as [->|[Hn|[_ Hn]]]; [exact Hl0 | congruence | exfalso; eapply Hn; eauto].
  - exists p0, pr0. rewrite E4, nth_error_set_nth_neq by auto. repeat split; auto.
    destruct Hl as [->|[Hn|[Hn _]]]; [exact Hl0 | congruence | congruence].
Qed.

Lemma binv_step s p s' : AInv s -> BInv s -> sstep s p = Some s' -> BInv s'.
Proof.
  intros AI [Bn Bi Bt Bf Bw Br Bo] H. destruct (sstep_procs s p s' H) as (pr & N & _).
  pose proof (a_lock _ AI p pr N) as Alp. pose proof (a_prog _ AI p pr N) as (Apo & Aph & Apw).
  sstep_cases H N; unfold lock_free_for, upd_proc, finish in *; simpl in *.
  all: assert (Hd : forall g0 t0 o0 l0, pc_head (PW1 g0 t0) (o0 :: l0) -> Forall op_ok (o0 :: l0) -> o0 = SWrite g0 t0 /\ text_ok t0)
         by (intros g0 t0 o0 l0 (rest & E) F; injection E as -> _; inversion F; subst; auto).
  all: constructor; simpl.
  (* b_nd *)
  all: try exact Bn.
  all: try (rewrite map_app; simpl; apply NoDup_app_single; split; [exact Bn|]; intros Hin; apply Bi in Hin; destruct Hin as (e & He);
            rewrite <- (idx_get_extend (ss_index s) g g) in He; congruence).
  (* b_idx *)
  all: try exact Bi.
  all: try (intros g0; rewrite <- Bi; unfold stored; rewrite idx_get_extend; reflexivity).
  all: try (intros g0; rewrite map_app, in_app_iff; simpl; rewrite <- Bi; unfold stored; rewrite idx_get_set by apply extend_length;
            rewrite idx_get_extend; destruct (g0 =? g) eqn:E; [apply Nat.eqb_eq in E; subst; split; eauto | apply Nat.eqb_neq in E; split; [tauto | intros [?|[?|[]]]; [assumption | congruence]]]).
  (* b_tok *)
  all: try exact Bt.
  all: try (apply Forall_app; split; [exact Bt|]; constructor; [|constructor]; simpl;
            destruct (Hd _ _ _ _ Aph Apo) as [_ Ht]; exact Ht).
  (* b_files: postponed - rotate the goals so that the simple fields come first *)
  all: try (intros q prq g0 t0 Hq Hw; try (apply nth_set_nth_cases in Hq; destruct Hq as [[-> ->]|[Hne Hq]]); simpl in *; try discriminate;
            first [ solve [eapply Bw; eauto]
                  | solve [apply in_or_app; left; eapply Bw; eauto]
                  | solve [injection Hw as <- <-; eapply Bw; [exact N|]; match goal with Hp : p_pc _ = _ |- _ => rewrite Hp end; reflexivity]
                  | solve [injection Hw as <- <-; apply in_or_app; right; left; reflexivity] ]).
  (* b_rd *)
  all: try (intros q prq g0 w0 off0 Hq Hpc; try (apply nth_set_nth_cases in Hq; destruct Hq as [[-> ->]|[Hne Hq]]); simpl in *; try discriminate;
            destruct (Br q prq g0 w0 off0 Hq Hpc) as (t0 & Hin & Hw); exists t0;
            (split; [first [exact Hin | apply in_or_app; left; exact Hin]
                    | first [exact Hw | apply written_files_app; exact Hw | apply written_files_set; exact Hw]]); fail).
  (* b_out: everything but the output just produced *)
  all: try (intros q prq o1 r1 Hq Hin; try (apply nth_set_nth_cases in Hq; destruct Hq as [[-> ->]|[Hne Hq]]); simpl in *;
            try (apply in_app_or in Hin; destruct Hin as [Hin|[Hin|[]]]);
            first [ solve [eapply Bo; eauto]
                  | solve [eapply out_mono; [|eapply Bo; eauto]; intros x Hx; apply in_or_app; left; exact Hx]
                  | idtac ]).
  (* b_files for the steps that leave index, files and texts alone *)
  all: try (eapply (files_local s _ p pr); simpl;
            first [ exact AI | exact Bf | exact N | reflexivity | (symmetry; assumption) | assumption
                  | solve [(match goal with Hp : p_pc _ = _ |- _ => rewrite Hp end); intros g1 t1 [E|[E|[E|E]]]; try discriminate;
                           injection E as <- <-; unfold pending_pc; simpl; auto]
                  | solve [left; reflexivity]
                  | solve [right; left; match goal with Hb : match ss_lock _ with _ => _ end = true |- _ => revert Hb end; destruct (ss_lock s); intros; [discriminate | reflexivity]]
                  | solve [right; right; split; [apply Alp; reflexivity|];
                           (match goal with Hp : p_pc _ = _ |- _ => rewrite Hp end); intros g1 t1 [E|[E|[E|E]]]; discriminate] ]; fail).
  - (* open: a new empty file *)
    intros gX tX Hin. destruct (Bf gX tX Hin) as (wX & offX & Hi & [Hw|(Ho & pX & prX & Hl0 & Hn0 & Hwid & Hpe)]); exists wX, offX; (split; [exact Hi|]).
    + left. apply written_files_app. exact Hw.
    + exfalso. rewrite Hl0 in *. discriminate.
  - injection Hin as <- <-. exact Logic.I.
  - injection Hin as <- <-. exact Logic.I.
  - (* ValueError: only the index may have been extended *)
    intros gX tX Hin. destruct (Bf gX tX Hin) as (wX & offX & Hi & [Hw|(Ho & pX & prX & Hl0 & Hn0 & Hwid & Hpe)]); exists wX, offX; simpl; rewrite idx_get_extend; (split; [exact Hi|]).
    + left. exact Hw.
    + exfalso. assert (E : ss_lock s = Some p) by (apply Alp; reflexivity). assert (pX = p) by congruence. subst pX.
      assert (prX = pr) by congruence. subst prX. destruct Hpe as [E1|[E1|[E1|E1]]]; congruence.
  - destruct (Hd _ _ _ _ Aph Apo) as [-> _]. injection Hin as <- <-. right. split; auto. apply Bi.
    match goal with He : idx_get (extend _ _) _ = Some _ |- _ => rewrite idx_get_extend in He; eexists; exact He end.
  - (* W1: the new entry is pending, the old ones are written *)
    assert (Lk : ss_lock s = Some p) by (apply Alp; reflexivity).
    assert (Gn : idx_get (ss_index s) g = None) by (match goal with He : idx_get (extend _ _) _ = None |- _ => rewrite idx_get_extend in He; exact He end).
    intros gX tX Hin. apply in_app_or in Hin. destruct Hin as [Hin|[Hin|[]]].
    + destruct (Bf gX tX Hin) as (wX & offX & Hi & [Hw|(Ho & pX & prX & Hl0 & Hn0 & Hwid & Hpe)]); exists wX, offX.
      * simpl. split; [|left; exact Hw]. rewrite idx_get_set by apply extend_length. rewrite idx_get_extend.
        destruct (gX =? g) eqn:E; [apply Nat.eqb_eq in E; subst; congruence | exact Hi].
      * exfalso. assert (pX = p) by congruence. subst pX. assert (prX = pr) by congruence. subst prX.
        destruct Hpe as [E1|[E1|[E1|E1]]]; congruence.
    + injection Hin as <- <-. exists n, (length (nth n (ss_files s) [])). simpl. split.
      * rewrite idx_get_set by apply extend_length. rewrite Nat.eqb_refl. reflexivity.
      * right. split; auto. exists p. eexists. rewrite (nth_error_set_nth_eq _ _ _ _ N). repeat split; auto. left. reflexivity.
  - (* one iteration of the waiting_for loop *)
    intros gX tX Hin. exact (Bf gX tX Hin).
  - (* W4: the pending line is written *)
    assert (Lk : ss_lock s = Some p) by (apply Alp; reflexivity).
    intros gX tX Hin. destruct (Bf gX tX Hin) as (wX & offX & Hi & [Hw|(Ho & pX & prX & Hl0 & Hn0 & Hwid & Hpe)]); exists wX, offX; (split; [exact Hi|]).
    + left. apply written_files_set. exact Hw.
    + left. assert (pX = p) by congruence. subst pX. assert (prX = pr) by congruence. subst prX.
      assert (wX = n) by congruence. subst wX.
      assert (E : PW4 g t = PW4 gX tX) by (destruct Hpe as [E1|[E1|[E1|E1]]]; congruence). injection E as <- <-.
      simpl. rewrite nth_set_nth_same by assumption. subst offX. apply written_new.
  - (* W5 *)
    destruct Aph as (rest & E). injection E as -> _. injection Hin as <- <-. left. split; auto.
    eapply Bw; [exact N|]. match goal with Hp : p_pc _ = _ |- _ => rewrite Hp end. reflexivity.
  - (* R1 -> R2: the entry found under the lock is complete *)
    intros Hpc. apply nth_set_nth_cases in Hin. destruct Hin as [[-> ->]|[Hne Hin]].
    + simpl in Hpc. injection Hpc as <- <- <-.
      assert (Lk : ss_lock s = Some p) by (apply Alp; reflexivity).
      assert (St : stored (ss_index s) g) by (eexists; eassumption). apply Bi in St. apply in_map_iff in St. destruct St as ([gY tY] & E & Hin). simpl in E. subst gY.
      destruct (Bf g tY Hin) as (wX & offX & Hi & [Hw|(Ho & pX & prX & Hl0 & Hn0 & Hwid & Hpe)]).
      * exists tY. split; auto. assert (E : (wX, offX) = (n, n0)) by congruence. injection E as <- <-. exact Hw.
      * exfalso. assert (pX = p) by congruence. subst pX. assert (prX = pr) by congruence. subst prX. destruct Hpe as [E1|[E1|[E1|E1]]]; congruence.
    + apply (Br q prq o1 r1 Hq Hin Hpc).
  - injection Hin as <- <-. destruct Aph as (rest & E). injection E as -> _. left. reflexivity.
  - (* R2: the line read is the text *)
    injection Hin as <- <-. destruct Aph as (rest & E). injection E as -> _.
    destruct (Br p pr g w off N) as (tY & Hin & Hw); [assumption|]. right. exists tY. split; auto. f_equal. apply line_at_written; auto.
    rewrite Forall_forall in Bt. apply (Bt (g, tY) Hin).
  - injection Hin as <- <-. destruct Aph as (rest & E). injection E as -> _. exact Logic.I.
Qed.

(* ------------------------------------------------------------------ the two counters *)
Definition owner_pc (s : sstate) : option spc :=
  match ss_lock s with
  | Some p => match nth_error (ss_procs s) p with Some pr => Some (p_pc pr) | None => None end
  | None => None end.

Record CInv (s : sstate) : Prop := {
  c_cnt : ss_cnt s + (match owner_pc s with Some (PW2 _ _) => 1 | _ => 0 end) = length (ss_texts s);
  c_below : forall i, i < ss_wf s -> stored (ss_index s) i;
  c_at : match owner_pc s with
         | Some (PW2 g _) | Some (PW3 g _) => ~ stored (ss_index s) (ss_wf s) \/ ss_wf s = g
         | Some (PW3L _ _) => True
         | _ => ~ stored (ss_index s) (ss_wf s) end;
}.

Lemma seq_incl_length (l : list nat) n : NoDup l -> (forall i, i < n -> In i l) -> n <= length l.
Proof.
  intros Nd H. rewrite <- (seq_length n 0). apply NoDup_incl_length; [apply seq_NoDup|]. intros i Hi. apply in_seq in Hi. apply H. lia.
Qed.

Lemma stored_extend idx g i : stored (extend idx g) i <-> stored idx i.
Proof. unfold stored. rewrite idx_get_extend. reflexivity. Qed.
Lemma stored_set idx g e i : g < length idx -> (stored (set_nth g (Some e) idx) i <-> i = g \/ stored idx i).
Proof.
  intros H. unfold stored. rewrite idx_get_set by auto. destruct (i =? g) eqn:E.
  - apply Nat.eqb_eq in E. subst. split; eauto.
  - apply Nat.eqb_neq in E. split; [auto | intros [?|?]; [contradiction | auto]].
Qed.

Lemma cinv_step s p s' : AInv s -> BInv s -> CInv s -> sstep s p = Some s' -> CInv s'.
Proof.
  intros AI BI [Cc Cb Ca] H. destruct (sstep_procs s p s' H) as (pr & N & _).
  pose proof (a_lock _ AI p pr N) as Alp.
  assert (Own : locked_pc (p_pc pr) = true -> owner_pc s = Some (p_pc pr)).
  { intros L. unfold owner_pc. rewrite (proj1 Alp L), N. reflexivity. }
  assert (Oth : forall pr' lk, locked_pc (p_pc pr) = false -> lk = ss_lock s ->
            match lk with Some q => match nth_error (set_nth p pr' (ss_procs s)) q with Some x => Some (p_pc x) | None => None end | None => None end = owner_pc s).
  { intros pr' lk L ->. unfold owner_pc. destruct (ss_lock s) as [q|] eqn:Lk; auto.
    assert (q <> p) by (intros ->; apply (proj2 (a_lock _ AI p pr N)) in Lk; congruence). rewrite nth_error_set_nth_neq by auto. reflexivity. }
  assert (Own' : forall pr', match nth_error (set_nth p pr' (ss_procs s)) p with Some x => Some (p_pc x) | None => None end = Some (p_pc pr')).
  { intros pr'. rewrite (nth_error_set_nth_eq _ _ _ _ N). reflexivity. }
  sstep_cases H N; unfold lock_free_for, upd_proc, finish in *; simpl in *.
  all: simpl in Own, Oth.
  all: try (assert (Lk : ss_lock s = Some p) by (apply Alp; reflexivity)).
  all: try (rewrite Own in Cc, Ca by reflexivity).
  all: try (match goal with Hb : match ss_lock _ with _ => _ end = true |- _ =>
              unfold owner_pc in Cc, Ca; destruct (ss_lock s) eqn:Lk0; [discriminate Hb|] end).
  all: constructor; unfold owner_pc; simpl; rewrite ?Lk, ?Own', ?Oth by (reflexivity || auto); simpl in *; auto.
  - intros i Hi. apply stored_extend. auto.
  - rewrite stored_extend. exact Ca.
  - rewrite app_length. simpl. lia.
  - intros i Hi. apply stored_set; [apply extend_length|]. right. apply stored_extend. auto.
  - destruct (Nat.eq_dec (ss_wf s) g) as [E|E]; [right; exact E | left]. intros St.
    destruct (proj1 (stored_set _ _ _ _ (extend_length _ _)) St) as [?|St2]; [contradiction|]. exact (Ca (proj1 (stored_extend _ _ _) St2)).
  - lia.
  - (* W3 with id = waiting_for *)
    intros i Hi. destruct (Nat.eq_dec i (ss_wf s)) as [->|Hne]; [|apply Cb; lia].
    match goal with Hb : (_ =? _) = true |- _ => apply Nat.eqb_eq in Hb; rewrite <- Hb end.
    apply (b_idx _ BI). apply in_map_iff. exists (g, t). split; auto. eapply (b_wpc _ BI); [exact N|].
    match goal with Hp : p_pc _ = _ |- _ => rewrite Hp end. reflexivity.
  - match goal with Hb : (_ =? _) = false |- _ => apply Nat.eqb_neq in Hb end. destruct Ca as [Ca|Ca]; [exact Ca | congruence].
  - rewrite N. simpl. match goal with Hp : p_pc _ = _ |- _ => rewrite Hp end. rewrite Nat.add_0_r in Cc |- *. exact Cc.
  - match goal with Hb : andb _ _ = true |- _ => apply andb_true_iff in Hb; destruct Hb as [_ Hst] end.
    intros i Hi. destruct (Nat.eq_dec i (ss_wf s)) as [->|Hne]; [|apply Cb; lia].
    unfold stored. destruct (idx_get (ss_index s) (ss_wf s)); [eauto | discriminate].
  - rewrite N. simpl. match goal with Hp : p_pc _ = _ |- _ => rewrite Hp end. exact Logic.I.
  - (* the loop stops exactly at the first identifier that is not stored *)
    match goal with Hb : andb _ _ = false |- _ => apply andb_false_iff in Hb; destruct Hb as [Hlt|Hst] end.
    + apply Nat.ltb_ge in Hlt. intros St.
      assert (Hle : S (ss_wf s) <= length (map fst (ss_texts s))).
      { apply seq_incl_length; [apply (b_nd _ BI)|]. intros i Hi. apply (b_idx _ BI). destruct (Nat.eq_dec i (ss_wf s)) as [->|Hne]; [exact St | apply Cb; lia]. }
      rewrite map_length in Hle. lia.
    + intros (e & He). rewrite He in Hst. discriminate.
Qed.

(* ------------------------------------------------------------------ every reachable state *)
Definition progs_ok (progs : list (list sop)) : Prop := Forall (Forall op_ok) progs.

Record SAll (s : sstate) : Prop := { sa_a : AInv s; sa_b : BInv s; sa_c : CInv s }.

Lemma sall_step s p s' : SAll s -> sstep s p = Some s' -> SAll s'.
Proof.
  intros [A B C] H. constructor; [eapply ainv_step; eauto | eapply binv_step; eauto | eapply cinv_step; eauto].
Qed.

Lemma stored_repeat_none n g : ~ stored (repeat None n) g.
Proof.
  unfold stored, idx_get. intros (e & H). destruct (nth_error (repeat None n) g) as [o|] eqn:N; [|discriminate].
  apply nth_error_In in N. apply repeat_spec in N. subst. discriminate.
Qed.

Lemma sall_init presize progs : progs_ok progs -> SAll (sinit presize progs).
Proof.
  intros Ok. unfold sinit.
  assert (Np : forall p pr, nth_error (map (fun pr0 => mkP None pr0 PIdle []) progs) p = Some pr ->
            exists prog, nth_error progs p = Some prog /\ pr = mkP None prog PIdle []).
  { intros p pr H. rewrite nth_error_map in H. destruct (nth_error progs p) as [prog|]; [|discriminate]. injection H as <-. eauto. }
  constructor; constructor; simpl; try (intros; discriminate); auto.
  - intros p pr H. destruct (Np p pr H) as (prog & _ & ->). simpl. split; discriminate.
  - intros p pr H. destruct (Np p pr H) as (prog & Hn & ->). simpl. repeat split; auto.
    unfold progs_ok in Ok. rewrite Forall_forall in Ok. apply Ok. eapply nth_error_In; eauto.
  - constructor.
  - intros g. split; [intros St; exfalso; eapply stored_repeat_none; eauto | intros []].
  - intros g t [].
  - intros p pr g t H. destruct (Np p pr H) as (prog & _ & ->). discriminate.
  - intros p pr g w off H. destruct (Np p pr H) as (prog & _ & ->). discriminate.
  - intros p pr o r H. destruct (Np p pr H) as (prog & _ & ->). intros [].
  - intros i Hi. lia.
  - apply stored_repeat_none.
Qed.

Theorem sall_run presize progs sched : progs_ok progs -> SAll (srun (sinit presize progs) sched).
Proof.
  intros Ok. unfold srun.
  assert (G : forall sched s, SAll s -> SAll (fold_left (fun s p => match sstep s p with Some s' => s' | None => s end) sched s)).
  { clear sched. induction sched as [|p r IH]; intros s A; simpl; auto. apply IH. destruct (sstep s p) eqn:E; auto. eapply sall_step; eauto. }
  apply G. apply sall_init. exact Ok.
Qed.

(* ------------------------------------------------------------------ what the invariants say *)
Lemma lock_free_owner s : ss_lock s = None -> owner_pc s = None.
Proof. unfold owner_pc. intros ->. reflexivity. Qed.

(* the text of an identifier: unique *)
Lemma texts_unique s g t t' : SAll s -> In (g, t) (ss_texts s) -> In (g, t') (ss_texts s) -> t = t'.
Proof.
  intros [_ B _] H1 H2. pose proof (b_nd _ B) as Nd. clear -Nd H1 H2. induction (ss_texts s) as [|[g0 t0] l IH]; [contradiction|].
  simpl in Nd. inversion Nd as [|? ? Hn Nd']; subst. destruct H1 as [E1|H1]; destruct H2 as [E2|H2].
  - congruence.
  - injection E1 as -> ->. exfalso. apply Hn. apply in_map_iff. exists (g, t'). auto.
  - injection E2 as -> ->. exfalso. apply Hn. apply in_map_iff. exists (g, t). auto.
  - auto.
Qed.

(* with no operation inside its critical section: everything stored is completely in its file *)
Theorem quiescent s : SAll s -> ss_lock s = None ->
  ss_cnt s = length (ss_texts s)
  /\ (forall i, i < ss_wf s -> stored (ss_index s) i) /\ ~ stored (ss_index s) (ss_wf s)
  /\ (forall g t, In (g, t) (ss_texts s) -> exists w off, idx_get (ss_index s) g = Some (w, off) /\ line_at (nth w (ss_files s) []) off = t).
Proof.
  intros [A B C] Lk. pose proof (c_cnt _ C) as Cc. pose proof (c_at _ C) as Ca. rewrite (lock_free_owner s Lk) in Cc, Ca.
  split; [lia|]. split; [apply (c_below _ C)|]. split; [exact Ca|].
  intros g t Hin. destruct (b_files _ B g t Hin) as (w & off & Hi & [Hw|(_ & p0 & pr0 & Hl & _)]); [|congruence].
  exists w, off. split; auto. apply line_at_written; auto. pose proof (b_tok _ B) as Bt. rewrite Forall_forall in Bt. apply (Bt (g, t) Hin).
Qed.

(* is_contiguous(), evaluated with no write in progress: true exactly when the stored identifiers are 0 .. len-1 *)
Theorem contiguous_spec s : SAll s -> ss_lock s = None ->
  ((ss_wf s =? ss_cnt s) = true <-> forall g, stored (ss_index s) g <-> g < ss_cnt s).
Proof.
  intros SA Lk. destruct (quiescent s SA Lk) as (Hc & Hb & Ha & _). destruct SA as [A B C].
  assert (Card : forall g, stored (ss_index s) g -> (forall i, i < ss_cnt s -> stored (ss_index s) i) -> g < ss_cnt s).
  { intros g Sg Hall. destruct (Nat.lt_ge_cases g (ss_cnt s)) as [?|Hge]; auto. exfalso.
    (* cnt + 1 distinct stored identifiers *)
    assert (Hle : S (ss_cnt s) <= length (g :: seq 0 (ss_cnt s))) by (simpl; rewrite seq_length; lia).
    assert (Nd : NoDup (g :: seq 0 (ss_cnt s))) by (constructor; [rewrite in_seq; lia | apply seq_NoDup]).
    assert (Inc : incl (g :: seq 0 (ss_cnt s)) (map fst (ss_texts s))).
    { intros x [<-|Hx]; apply (b_idx _ B); auto. apply Hall. apply in_seq in Hx. lia. }
    pose proof (NoDup_incl_length Nd Inc) as L. rewrite map_length in L. simpl in L. rewrite seq_length in L. lia. }
  split.
  - intros E. apply Nat.eqb_eq in E. intros g. split.
    + intros Sg. apply Card; auto. intros i Hi. apply Hb. lia.
    + intros Hg. apply Hb. lia.
  - intros H. apply Nat.eqb_eq. destruct (Nat.lt_trichotomy (ss_wf s) (ss_cnt s)) as [Hlt|[?|Hgt]]; auto.
    + exfalso. apply Ha. apply H. exact Hlt.
    + exfalso. assert (St : stored (ss_index s) (ss_cnt s)) by (apply Hb; exact Hgt). apply H in St. lia.
Qed.

(* iteration, with no write in progress: the stored texts in the order of their identifiers, gaps skipped *)
Fixpoint text_of (texts : list (nat * list Z)) (g : nat) : option (list Z) :=
  match texts with [] => None | (g0, t) :: r => if g0 =? g then Some t else text_of r g end.
Lemma text_of_in texts g t : NoDup (map fst texts) -> In (g, t) texts -> text_of texts g = Some t.
Proof.
  induction texts as [|[g0 t0] r IH]; intros Nd H; [contradiction|]. simpl in *. inversion Nd; subst. destruct H as [E|H].
  - injection E as -> ->. rewrite Nat.eqb_refl. reflexivity.
  - destruct (g0 =? g) eqn:E; [|auto]. apply Nat.eqb_eq in E. subst. exfalso. match goal with Hn : ~ In _ _ |- _ => apply Hn end.
    apply in_map_iff. exists (g, t). auto.
Qed.
Lemma text_of_none texts g : ~ In g (map fst texts) -> text_of texts g = None.
Proof.
  induction texts as [|[g0 t0] r IH]; intros H; auto. simpl in *. destruct (g0 =? g) eqn:E.
  - apply Nat.eqb_eq in E. subst. exfalso. apply H. left. reflexivity.
  - apply IH. intros Hin. apply H. right. exact Hin.
Qed.
Lemma flat_map_index {A B} (f : A -> list B) (l : list A) :
  flat_map f l = flat_map (fun i => match nth_error l i with Some x => f x | None => [] end) (seq 0 (length l)).
Proof.
  induction l as [|a l IH]; auto. simpl. f_equal. rewrite IH. rewrite <- seq_shift. rewrite !flat_map_concat_map. rewrite map_map. reflexivity.
Qed.

Theorem iter_spec s : SAll s -> ss_lock s = None ->
  iter_texts (ss_index s) (ss_files s) =
  flat_map (fun g => match text_of (ss_texts s) g with Some t => [t] | None => [] end) (seq 0 (length (ss_index s))).
Proof.
  intros SA Lk. destruct (quiescent s SA Lk) as (_ & _ & _ & Hf). destruct SA as [A B C].
  unfold iter_texts. rewrite flat_map_index. apply flat_map_ext_in. intros g _.
  destruct (nth_error (ss_index s) g) as [[[w off]|]|] eqn:N.
  - assert (Hi : idx_get (ss_index s) g = Some (w, off)) by (unfold idx_get; rewrite N; reflexivity).
    assert (St : stored (ss_index s) g) by (eexists; exact Hi). apply (b_idx _ B) in St. apply in_map_iff in St.
    destruct St as ([g1 t] & E & Hin). simpl in E. subst g1. rewrite (text_of_in _ _ _ (b_nd _ B) Hin).
    destruct (Hf g t Hin) as (w' & off' & Hi' & Hl). assert (E : (w', off') = (w, off)) by congruence. injection E as -> ->. rewrite Hl. reflexivity.
  - rewrite text_of_none; auto. intros Hin. apply (b_idx _ B) in Hin. destruct Hin as (e & He). unfold idx_get in He. rewrite N in He. discriminate.
  - rewrite text_of_none; auto. intros Hin. apply (b_idx _ B) in Hin. destruct Hin as (e & He). unfold idx_get in He. rewrite N in He. discriminate.
Qed.

(* storing under an identifier that is taken: ValueError, and nothing changes *)
Theorem duplicate_write s p pr g t o rest s' : nth_error (ss_procs s) p = Some pr -> p_pc pr = PW1 g t -> p_todo pr = o :: rest ->
  stored (ss_index s) g -> sstep s p = Some s' ->
  (forall i, idx_get (ss_index s') i = idx_get (ss_index s) i) /\ ss_files s' = ss_files s /\ ss_cnt s' = ss_cnt s /\ ss_wf s' = ss_wf s
  /\ ss_texts s' = ss_texts s /\ ss_lock s' = None
  /\ exists pr', nth_error (ss_procs s') p = Some pr' /\ p_out pr' = p_out pr ++ [(o, RValueError)] /\ p_pc pr' = PIdle /\ p_todo pr' = rest.
Proof.
  intros N Pc Td (e & He) H. unfold sstep in H. rewrite N, Pc, Td in H. rewrite idx_get_extend, He in H. injection H as <-. simpl.
  repeat split; auto. - intros i. apply idx_get_extend. - eexists. rewrite (nth_error_set_nth_eq _ _ _ _ N). repeat split.
Qed.

(* len() at any moment: the number of stored identifiers, or one less while a write is between its two updates *)
Theorem len_bounds s : SAll s -> ss_cnt s <= length (ss_texts s) <= S (ss_cnt s).
Proof. intros [_ _ C]. pose proof (c_cnt _ C) as Cc. destruct (owner_pc s) as [[]|]; lia. Qed.

Theorem flush_resets s : let s' := sflush s in
  ss_index s' = [] /\ Forall (fun f => f = []) (ss_files s') /\ length (ss_files s') = length (ss_files s)
  /\ ss_cnt s' = 0 /\ ss_wf s' = 0 /\ ss_texts s' = [] /\ (forall g, ~ stored (ss_index s') g).
Proof.
  simpl. repeat split; auto.
  - apply Forall_forall. intros f Hf. apply in_map_iff in Hf. destruct Hf as (x & <- & _). reflexivity.
  - apply map_length.
  - intros g (e & He). unfold idx_get in He. destruct g; discriminate.
Qed.

(* after a flush between operations the storage is in a state that satisfies every invariant again - with the writer
   numbers of the processes still valid - so everything proved above holds for the operations that follow *)
Theorem flush_epoch s : SAll s -> (forall p pr, nth_error (ss_procs s) p = Some pr -> p_pc pr = PIdle) -> SAll (sflush s).
Proof.
  intros [A B C] Idle.
  assert (Np : forall p pr', nth_error (map (fun pr => mkP (p_wid pr) (p_todo pr) PIdle []) (ss_procs s)) p = Some pr' ->
            exists pr, nth_error (ss_procs s) p = Some pr /\ pr' = mkP (p_wid pr) (p_todo pr) PIdle []).
  { intros p pr' H. rewrite nth_error_map in H. destruct (nth_error (ss_procs s) p) as [pr|]; [|discriminate]. injection H as <-. eauto. }
  constructor; constructor; unfold sflush; simpl; try (intros; discriminate); auto.
  - intros p pr' H. destruct (Np p pr' H) as (pr & _ & ->). simpl. split; discriminate.
  - intros p pr' H. destruct (Np p pr' H) as (pr & N & ->). simpl. destruct (a_prog _ A p pr N) as (Fo & _ & Hw).
    repeat split; auto. rewrite map_length. destruct (p_wid pr); auto.
  - constructor.
  - intros g. split; [intros (e & He); unfold idx_get in He; destruct g; discriminate | intros []].
  - intros g t [].
  - intros p pr' g t H. destruct (Np p pr' H) as (pr & _ & ->). discriminate.
  - intros p pr' g w off H. destruct (Np p pr' H) as (pr & _ & ->). discriminate.
  - intros p pr' o r H. destruct (Np p pr' H) as (pr & _ & ->). intros [].
  - intros i Hi. lia.
  - intros (e & He). unfold idx_get in He. discriminate.
Qed.
