(* Proofs about the pool LTS Model/Pool.v (properties C01-C04): safety for every schedule. *)
From Coq Require Import ZArith List Bool Arith Lia Permutation.
From WPU Require Import Common.Val Common.ListX Common.Perm Model.Pool Proofs.GenericP.
Import ListNotations.
Open Scope nat_scope.

(* ------------------------------------------------------------------ where the chunks of the current call are *)
Definition q_entries (q : list qitem) : list (nat * list Z) :=
  flat_map (fun it => match it with QChunk i xs => [(i, xs)] | QNone => [] end) q.
Definition hw (w : worker) : list (nat * list Z) := match w_pc w with WHold i xs | WHoldR i xs => [(i, xs)] | _ => [] end.
Definition held (ps : list worker) : list (nat * list Z) := flat_map hw ps.
Definition batch_of (m : mpc) : list (nat * list Z) := match m with MFetch b _ => b | _ => [] end.
Definition entries (s : state) : list (nat * list Z) :=
  q_entries (s_workq s) ++ held (s_procs s) ++ q_entries (s_resq s) ++ batch_of (s_main s) ++ s_buffer s.

Definition chunk (s : state) (j : nat) : list Z := firstn (s_chunk s) (skipn (j * s_chunk s) (s_data s)).
Definition in_call (m : mpc) : bool := match m with MCheck | MFetch _ _ | MFlow | MStop | MJoinF => true | _ => false end.

Record CoreInv (s : state) : Prop := {
  (* conservation: the chunk indices handed out so far are, each exactly once, either processed (pi, in the order
     in which their elements were yielded) or somewhere in flight *)
  ci_pi : exists pi, Permutation (pi ++ map fst (entries s)) (seq 0 (s_cnt s))
            /\ s_yield s = concat (map (chunk s) pi) /\ s_finished s = length pi
            /\ (s_ordered s = true -> pi = seq 0 (s_wait s));
  ci_payload : Forall (fun e => snd e = chunk s (fst e)) (entries s);
  ci_chunk : 1 <= s_chunk s;
  ci_feeder : match s_feeder s with
              | FNext i rest | FWait i rest => rest = skipn (i * s_chunk s) (s_data s) /\ s_cnt s = i /\ s_sending s = true
              | FTok | FDone => skipn (s_cnt s * s_chunk s) (s_data s) = [] /\ s_sending s = false
              | FOff => False
              end;
  ci_exit : match s_main s with MStop | MJoinF => entries s = [] /\ s_sending s = false | _ => True end;
}.

Definition action_ok (a : action) : Prop := match a with ACall _ _ c => 1 <= c | AReady => True end.

Record Inv (s : state) : Prop := {
  i_err : s_error s = false;
  i_hist : Forall action_ok (s_todo s);
  i_call : if in_call (s_main s) then CoreInv s else entries s = [];
  i_pre : match s_main s with MRepStarted => s_feeder s = FNext 0 (s_data s) /\ 1 <= s_chunk s | _ => True end;
  (* results of the calls completed so far: exactly their inputs (ordered) / a chunk-wise rearrangement (unordered) *)
}.

(* no functor / begin() fault is injected *)
Definition fault_free (e : event) : Prop :=
  match e with EWFault _ => False | EWBegin _ true => False | _ => True end.

(* ------------------------------------------------------------------ list helpers *)
Lemma q_entries_app a b : q_entries (a ++ b) = q_entries a ++ q_entries b.
Proof. unfold q_entries. apply flat_map_app. Qed.

Lemma held_set_nth ps k w w' : nth_error ps k = Some w ->
  Permutation (held (set_nth k w' ps) ++ hw w) (hw w' ++ held ps).
Proof.
  revert k; induction ps as [|p ps IH]; intros [|k] H; simpl in *; try discriminate.
  - injection H as ->. unfold held. simpl. fold (held ps).
    rewrite <- app_assoc. rewrite (Permutation_app_comm (held ps) (hw w)). reflexivity.
  - unfold held in *. simpl. fold (held ps). fold (held (set_nth k w' ps)).
    rewrite <- app_assoc. rewrite (IH k H). rewrite !app_assoc. apply Permutation_app_tail. apply Permutation_app_comm.
Qed.

Lemma held_set_nth_same ps k w w' : nth_error ps k = Some w -> hw w' = hw w -> held (set_nth k w' ps) = held ps.
Proof.
  revert k; induction ps as [|p ps IH]; intros [|k] H E; simpl in *; try discriminate.
  - injection H as ->. unfold held. simpl. rewrite E. reflexivity.
  - unfold held in *. simpl. f_equal. apply (IH k H E).
Qed.

Lemma concat_chunks (d : list Z) (c n : nat) :
  concat (map (fun j => firstn c (skipn (j * c) d)) (seq 0 n)) = firstn (n * c) d.
Proof. apply concat_batches. Qed.

(* ------------------------------------------------------------------ the reorder buffer inside the consumer *)
Lemma buf_get_in b i x : buf_get b i = Some x -> In (i, x) b.
Proof.
  induction b as [|[j y] t IH]; simpl; [discriminate|]. destruct (j =? i) eqn:E.
  - intros H. injection H as ->. apply Nat.eqb_eq in E. subst. left; reflexivity.
  - intros H. right. apply IH. exact H.
Qed.
Lemma buf_get_none b i : buf_get b i = None <-> ~ In i (map fst b).
Proof.
  induction b as [|[j y] t IH]; simpl; [tauto|]. destruct (j =? i) eqn:E.
  - apply Nat.eqb_eq in E. split; [discriminate | intros H; exfalso; apply H; left; exact E].
  - apply Nat.eqb_neq in E. rewrite IH. tauto.
Qed.
Lemma buf_del_perm b i x : buf_get b i = Some x -> Permutation b ((i, x) :: buf_del b i).
Proof.
  induction b as [|[j y] t IH]; simpl; [discriminate|]. destruct (j =? i) eqn:E.
  - intros H. injection H as ->. apply Nat.eqb_eq in E. subst. reflexivity.
  - intros H. rewrite (IH H) at 1. apply perm_swap.
Qed.

Lemma drain_spec : forall fuel b w out b' w', buf_drain fuel b w = (out, b', w') ->
  exists drained, Permutation b (drained ++ b') /\ map fst drained = seq w (length out) /\ map snd drained = out
                  /\ w' = w + length out.
Proof.
  induction fuel as [|f IH]; intros b w out b' w' H; simpl in H.
  - injection H as <- <- <-. exists []. simpl. repeat split; auto.
  - destruct (buf_get b w) as [x|] eqn:G.
    + destruct (buf_drain f (buf_del b w) (S w)) as [[o1 b1] w1] eqn:D. injection H as <- <- <-.
      destruct (IH _ _ _ _ _ D) as (dr & P & F1 & F2 & Hw).
      exists ((w, x) :: dr). simpl. repeat split.
      * rewrite (buf_del_perm b w x G). constructor. exact P.
      * f_equal. exact F1.
      * f_equal. exact F2.
      * lia.
    + injection H as <- <- <-. exists []. simpl. repeat split; auto.
Qed.

(* one batch handed to the ordered consumer: all its entries go through the buffer; whatever becomes contiguous
   is yielded in index order.  [others] are the indices that are elsewhere in flight. *)
Lemma process_batch (ch : nat -> list Z) (others : list nat) (cnt : nat) : forall batch buf w ys,
  Permutation (seq 0 w ++ map fst batch ++ map fst buf ++ others) (seq 0 cnt) ->
  Forall (fun e => snd e = ch (fst e)) (batch ++ buf) ->
  ys = concat (map ch (seq 0 w)) ->
  exists buf' w',
    fold_left process_ordered batch (buf, w, w, ys, false) = (buf', w', w', concat (map ch (seq 0 w')), false)
    /\ Permutation (seq 0 w' ++ map fst buf' ++ others) (seq 0 cnt)
    /\ Forall (fun e => snd e = ch (fst e)) buf'.
Proof.
  induction batch as [|[j xs] r IH]; intros buf w ys P F ->.
  - simpl. exists buf, w. repeat split; auto.
  - simpl in P.
    assert (Hnd : NoDup (seq 0 w ++ j :: map fst r ++ map fst buf ++ others)).
    { eapply Permutation_NoDup; [symmetry; exact P | apply seq_NoDup]. }
    assert (Hjw : ~ In j (seq 0 w)).
    { intros Hin. apply NoDup_remove_2 in Hnd. apply Hnd. apply in_or_app; left; exact Hin. }
    assert (Hjb : ~ In j (map fst buf)).
    { apply NoDup_app_r in Hnd. inversion Hnd as [|? ? Hn _]; subst. intros Hin. apply Hn.
      apply in_or_app; right. apply in_or_app; left; exact Hin. }
    assert (Hge : w <= j) by (destruct (Nat.le_gt_cases w j); [assumption | exfalso; apply Hjw; apply in_seq; lia]).
    cbn [fold_left]. unfold process_ordered at 2. cbn [fst snd].
    replace (j <? w) with false by (symmetry; apply Nat.ltb_ge; exact Hge).
    unfold buf_put. apply buf_get_none in Hjb. rewrite Hjb.
    destruct (buf_drain (S (length (buf ++ [(j, xs)]))) (buf ++ [(j, xs)]) w) as [[out b2] w2] eqn:D.
    destruct (drain_spec _ _ _ _ _ _ D) as (dr & Pd & F1 & F2 & Hw2).
    pose proof (Forall_inv F) as Hj. pose proof (Forall_inv_tail F) as Fr. simpl in Hj.
    assert (Fall : Forall (fun e => snd e = ch (fst e)) (dr ++ b2)).
    { rewrite Forall_forall in *. intros e He. eapply Permutation_in in He; [|symmetry; exact Pd].
      apply in_app_or in He. destruct He as [He|[<-|[]]]; [apply Fr; apply in_or_app; right; exact He | exact Hj]. }
    assert (Hout : concat out = concat (map ch (seq w (length out)))).
    { transitivity (concat (map snd dr)); [rewrite F2; reflexivity|].
      rewrite <- F1, map_map. f_equal. apply map_ext_in. intros e He.
      rewrite Forall_forall in Fall. apply Fall. apply in_or_app; left; exact He. }
    specialize (IH b2 w2 (concat (map ch (seq 0 w2)))).
    destruct IH as (buf' & w' & Hf & P' & F').
    + (* permutation *)
      apply (Permutation_map fst) in Pd. rewrite !map_app in Pd. simpl in Pd. rewrite F1 in Pd.
      rewrite Hw2. rewrite seq_app. simpl.
      rewrite <- P. rewrite <- !app_assoc. apply Permutation_app_head.
      (* seq w n ++ r ++ b2 ++ others  ~  j :: r ++ buf ++ others *)
      transitivity (map fst r ++ (seq w (length out) ++ map fst b2) ++ others).
      { rewrite !app_assoc. apply Permutation_app_tail. rewrite <- !app_assoc.
        rewrite (Permutation_app_comm (seq w (length out)) (map fst r ++ map fst b2)). rewrite <- app_assoc.
        apply Permutation_app_head. apply Permutation_app_comm. }
      rewrite <- Pd. rewrite <- !app_assoc. simpl.
      transitivity (map fst r ++ j :: map fst buf ++ others).
      { apply Permutation_app_head. rewrite <- Permutation_middle. reflexivity. }
      symmetry. apply Permutation_middle.
    + rewrite Forall_forall in *. intros e He. apply in_app_or in He. destruct He as [He|He].
      * apply Fr. apply in_or_app; left; exact He.
      * apply Fall. apply in_or_app; right; exact He.
    + reflexivity.
    + exists buf', w'. split; [|split; assumption].
      rewrite <- Hf. replace (w + length out) with w2 by lia.
      replace (concat (map ch (seq 0 w)) ++ concat out) with (concat (map ch (seq 0 w2))); [reflexivity|].
      rewrite Hw2, seq_app, map_app, concat_app. simpl. rewrite Hout. reflexivity.
Qed.

(* ------------------------------------------------------------------ transfer lemmas *)
Definition exit_pc (m : mpc) : bool := match m with MStop | MJoinF => true | _ => false end.

Lemma core_transfer s s' :
  s_cnt s' = s_cnt s -> s_yield s' = s_yield s -> s_finished s' = s_finished s -> s_ordered s' = s_ordered s ->
  s_wait s' = s_wait s -> s_chunk s' = s_chunk s -> s_data s' = s_data s -> s_feeder s' = s_feeder s ->
  s_sending s' = s_sending s -> Permutation (entries s') (entries s) ->
  (exit_pc (s_main s') = true -> exit_pc (s_main s) = true) ->
  CoreInv s -> CoreInv s'.
Proof.
  intros E1 E2 E3 E4 E5 E6 E7 E8 E9 P Hx [Hpi Hpay Hch Hf Hex].
  assert (Hc : forall j, chunk s' j = chunk s j) by (intros j; unfold chunk; rewrite E6, E7; reflexivity).
  constructor.
  - destruct Hpi as (pi & P1 & P2 & P3 & P4). exists pi. rewrite E1, E2, E3, E4, E5. repeat split; auto.
    + rewrite <- P1. apply Permutation_app_head. apply Permutation_map. exact P.
    + rewrite P2. f_equal. apply map_ext. intros j. symmetry. apply Hc.
  - rewrite Forall_forall in *. intros e He. rewrite Hc. apply Hpay. eapply Permutation_in; [exact P | exact He].
  - rewrite E6. exact Hch.
  - rewrite E8, E1, E6, E7, E9. exact Hf.
  - destruct (s_main s') eqn:M'; auto; specialize (Hx eq_refl); destruct (s_main s) eqn:M; try discriminate;
      destruct Hex as [He Hs]; rewrite He in P; apply Permutation_sym, Permutation_nil in P; rewrite E9; split; assumption.
Qed.

Lemma entries_nil_parts s : entries s = [] ->
  q_entries (s_workq s) = [] /\ held (s_procs s) = [] /\ q_entries (s_resq s) = [] /\ batch_of (s_main s) = [] /\ s_buffer s = [].
Proof.
  unfold entries. intros H. apply app_eq_nil in H. destruct H as [H1 H]. apply app_eq_nil in H. destruct H as [H2 H].
  apply app_eq_nil in H. destruct H as [H3 H]. apply app_eq_nil in H. tauto.
Qed.

Lemma nth_error_hw_nil ps k w : held ps = [] -> nth_error ps k = Some w -> hw w = [].
Proof.
  revert k; induction ps as [|p ps IH]; intros [|k] H N; simpl in *; try discriminate.
  - injection N as ->. unfold held in H. simpl in H. apply app_eq_nil in H. tauto.
  - unfold held in H. simpl in H. apply app_eq_nil in H. destruct H as [_ H]. apply (IH k H N).
Qed.

Lemma core_count s : CoreInv s -> s_finished s + length (entries s) = s_cnt s.
Proof.
  intros [(pi & P1 & _ & P3 & _) _ _ _ _]. apply Permutation_length in P1.
  rewrite app_length, map_length, seq_length in P1. lia.
Qed.

(* all the fields the invariant talks about, except the places where chunks are *)
Definition same_call (s s' : state) : Prop :=
  s_cnt s' = s_cnt s /\ s_yield s' = s_yield s /\ s_finished s' = s_finished s /\ s_ordered s' = s_ordered s
  /\ s_wait s' = s_wait s /\ s_chunk s' = s_chunk s /\ s_data s' = s_data s /\ s_feeder s' = s_feeder s
  /\ s_sending s' = s_sending s /\ s_main s' = s_main s /\ s_todo s' = s_todo s /\ s_error s' = s_error s
  /\ s_done_calls s' = s_done_calls s.

Lemma inv_transfer s s' : same_call s s' -> Permutation (entries s') (entries s) -> Inv s -> Inv s'.
Proof.
  intros (E1 & E2 & E3 & E4 & E5 & E6 & E7 & E8 & E9 & E10 & E11 & E12 & _) P [Ie Ih Ic Ip].
  constructor.
  - rewrite E12; exact Ie.
  - rewrite E11; exact Ih.
  - rewrite E10. destruct (in_call (s_main s)).
    + apply (core_transfer s s'); auto. rewrite E10. auto.
    + rewrite Ic in P. apply Permutation_sym, Permutation_nil in P. exact P.
  - rewrite E10, E8, E7, E6. exact Ip.
Qed.

Lemma slot_step_core cfg s k kind s' : kind <> 5 -> slot_step cfg s k kind false = Some s' ->
  same_call s s' /\ Permutation (entries s') (entries s).
Proof.
  intros Hk H. unfold slot_step in H. destruct (nth_error (s_procs s) k) as [w|] eqn:N; [|discriminate].
  destruct (worker_step cfg w kind false s) as [[w' s1]|] eqn:W; [|discriminate]. injection H as <-.
  unfold worker_step in W.
  destruct kind as [|[|[|[|[|[|?]]]]]]; try congruence; destruct (w_pc w) eqn:Pc; try discriminate.
  - (* begin *) injection W as <- <-. split; [repeat split; reflexivity|]. unfold entries, with_procs; simpl.
    rewrite (held_set_nth_same _ k w) by (auto; unfold hw; simpl; rewrite Pc; reflexivity). reflexivity.
  - (* take *)
    destruct (s_workq s) as [|[i xs|] q] eqn:Q; [discriminate| |]; injection W as <- <-.
    + split; [repeat split; reflexivity|]. unfold entries, with_procs; simpl. rewrite Q. simpl.
      pose proof (held_set_nth (s_procs s) k w (mkW (w_id w) (WHold i xs) (w_quota w) (w_ready w) (w_log w ++ [1])) N) as Hh.
      unfold hw in Hh at 1 2. simpl in Hh. rewrite Pc in Hh. rewrite app_nil_r in Hh. simpl in Hh.
      rewrite Hh. perm.
    + split; [repeat split; reflexivity|]. unfold entries, with_procs; simpl. rewrite Q. simpl.
      rewrite (held_set_nth_same _ k w) by (auto; unfold hw; simpl; rewrite Pc; reflexivity). reflexivity.
  - (* result of a chunk that is not the last one of a factory worker *)
    destruct (c_factory cfg && _); [discriminate|].
    destruct (full (c_rq_cap cfg) (s_resq s)); [discriminate|]. injection W as <- <-.
    split; [repeat split; reflexivity|]. unfold entries, with_procs; simpl. rewrite q_entries_app. simpl.
    set (w' := mkW (w_id w) _ _ (w_ready w) (w_log w)).
    pose proof (held_set_nth (s_procs s) k w w' N) as Hh.
    assert (Hw' : hw w' = []) by (unfold hw, w'; simpl; destruct (w_quota w) as [[|[|n]]|]; simpl; reflexivity).
    rewrite Hw' in Hh. unfold hw in Hh at 1. rewrite Pc in Hh. simpl in Hh.
    transitivity (q_entries (s_workq s) ++ (held (set_nth k w' (s_procs s)) ++ [(i, xs)]) ++ q_entries (s_resq s)
                  ++ batch_of (s_main s) ++ s_buffer s); [perm|].
    rewrite Hh. perm.
  - (* the last result of a retiring worker *)
    destruct (full (c_rq_cap cfg) (s_resq s)); [discriminate|]. injection W as <- <-.
    split; [repeat split; reflexivity|]. unfold entries, with_procs; simpl. rewrite q_entries_app. simpl.
    set (w' := mkW (w_id w) _ _ (w_ready w) (w_log w)).
    pose proof (held_set_nth (s_procs s) k w w' N) as Hh.
    assert (Hw' : hw w' = []) by reflexivity.
    rewrite Hw' in Hh. unfold hw in Hh at 1. rewrite Pc in Hh. simpl in Hh.
    transitivity (q_entries (s_workq s) ++ (held (set_nth k w' (s_procs s)) ++ [(i, xs)]) ++ q_entries (s_resq s)
                  ++ batch_of (s_main s) ++ s_buffer s); [perm|].
    rewrite Hh. perm.
  - (* retirement notice: the chunk stays in the worker's hands *)
    destruct (c_factory cfg && _); [|discriminate]. injection W as <- <-. split; [repeat split; reflexivity|]. unfold entries, with_procs; simpl.
    rewrite (held_set_nth_same _ k w) by (auto; unfold hw; simpl; rewrite Pc; reflexivity). reflexivity.
  - (* end *) injection W as <- <-. split; [repeat split; reflexivity|]. unfold entries, with_procs; simpl.
    rewrite (held_set_nth_same _ k w) by (auto; unfold hw; simpl; rewrite Pc; reflexivity). reflexivity.
Qed.

(* ------------------------------------------------------------------ the invariant survives every enabled step *)
Lemma fresh_call_core s' d c :
  s_cnt s' = 0 -> s_yield s' = [] -> s_finished s' = 0 -> s_wait s' = 0 -> s_chunk s' = c -> s_data s' = d ->
  s_feeder s' = FNext 0 d -> s_sending s' = true -> entries s' = [] -> s_main s' = MCheck -> 1 <= c -> CoreInv s'.
Proof.
  intros E1 E2 E3 E5 E6 E7 E8 E9 En Em Hc. constructor.
  - exists []. rewrite En, E1, E2, E3, E5. simpl. repeat split; auto.
  - rewrite En. constructor.
  - lia.
  - rewrite E8, E1, E6, E7, E9. simpl. auto.
  - rewrite Em. exact Logic.I.
Qed.

Theorem inv_step cfg s e s' : Inv s -> fault_free e -> step cfg s e = Some s' -> Inv s'.
Proof.
  intros IV Hff H. pose proof IV as [Ie Ih Ic Ip].
  destruct e; simpl in Hff; try contradiction; unfold step in H.
  - (* EStartW *)
    destruct (s_main s) eqn:M; try discriminate. destruct (nth_error (s_procs s) k) as [w|] eqn:N; [|discriminate].
    destruct (w_pc w) eqn:Pc; try discriminate. injection H as <-.
    constructor; simpl; auto.
    + rewrite ?M in Ic. simpl in Ic.
      assert (En : entries (upd_main (with_procs s (set_nth k (mkW (w_id w) WBegin (w_quota w) false (w_log w)) (s_procs s)))
                     (if S k <? length (s_procs s) then MEnter (S k) else MIdle)) = entries s).
      { unfold entries, upd_main, with_procs; simpl. rewrite M.
        rewrite (held_set_nth_same _ k w) by (auto; unfold hw; simpl; rewrite Pc; reflexivity).
        destruct (S k <? length (s_procs s)); reflexivity. }
      destruct (S k <? length (s_procs s)); simpl; rewrite <- Ic; exact En.
    + destruct (S k <? length (s_procs s)); exact Logic.I.
  - (* ENext *)
    destruct (s_main s) eqn:M; try discriminate. rewrite ?M in Ic. simpl in Ic.
    destruct (entries_nil_parts s Ic) as (N1 & N2 & N3 & N4 & N5).
    destruct (s_todo s) as [|[o d c|] rest] eqn:T; try discriminate.
    + injection H as <-. constructor; simpl; auto; [rewrite T; constructor|]. unfold entries, upd_main; simpl. rewrite N1, N2, N3, N5. reflexivity.
    + inversion Ih as [|? ? Hc Hr]; subst. simpl in Hc.
      destruct (c_factory cfg); injection H as <-.
      * constructor; simpl; auto. unfold entries; simpl. rewrite N1, N2, N3, N5. reflexivity.
      * constructor; simpl; auto. apply (fresh_call_core _ d c); simpl; auto.
        unfold entries; simpl. rewrite N1, N2, N3. reflexivity.
  - (* ECallInit *)
    destruct (s_main s) eqn:M; try discriminate. rewrite ?M in Ic, Ip. simpl in Ic. destruct Ip as [Hf Hc].
    destruct (entries_nil_parts s Ic) as (N1 & N2 & N3 & N4 & N5). injection H as <-.
    constructor; simpl; auto. apply (fresh_call_core _ (s_data s) (s_chunk s)); simpl; auto.
    unfold entries; simpl. rewrite N1, N2, N3. reflexivity.
  - (* EReady *)
    destruct (s_main s) eqn:M; try discriminate. destruct (s_todo s) as [|[|] rest] eqn:T; try discriminate.
    destruct (forallb w_ready (s_procs s)); [|discriminate]. injection H as <-.
    rewrite ?M in Ic. constructor; simpl; auto.
    + inversion Ih; assumption.
    + unfold entries in *. simpl. rewrite ?M in Ic. exact Ic.
  - (* ECheck *)
    destruct (s_main s) eqn:M; try discriminate. rewrite ?M in Ic. simpl in Ic.
    destruct (s_sending s || (s_finished s <? s_cnt s)) eqn:C; injection H as <-.
    + constructor; simpl; auto. apply (core_transfer s); simpl; auto.
      * unfold entries, upd_main; simpl. rewrite ?M. reflexivity.
      * discriminate.
    + apply orb_false_iff in C. destruct C as [C1 C2]. apply Nat.ltb_ge in C2.
      pose proof (core_count s Ic) as Hcount.
      assert (En : entries s = []) by (destruct (entries s); [reflexivity | simpl in Hcount; lia]).
      constructor; simpl; auto. destruct Ic as [Hpi Hpay Hch Hf Hex]. constructor; simpl; auto.
      * unfold entries, upd_main in *; simpl. rewrite ?M in Hpi. exact Hpi.
      * unfold entries, upd_main in *; simpl. rewrite ?M in Hpay. exact Hpay.
      * unfold entries, upd_main in *; simpl. rewrite ?M in En. split; assumption.
  - (* EGet *)
    destruct (s_main s) eqn:M; try discriminate. destruct (s_resq s) as [|it q] eqn:Q; [discriminate|]. injection H as <-.
    rewrite ?M in Ic. simpl in Ic. constructor; simpl; auto; [|destruct it; exact Logic.I].
    assert (Hin : in_call (match it with QChunk i xs => MFetch (batch ++ [(i, xs)]) woken | QNone => MFetch batch true end) = true)
      by (destruct it; reflexivity).
    rewrite Hin. apply (core_transfer s); simpl; auto.
    + unfold entries; simpl. rewrite ?M, ?Q. destruct it as [i xs|]; simpl; perm.
    + destruct it; discriminate.
  - (* EProcess *)
    destruct (s_main s) eqn:M; try discriminate. rewrite ?M in Ic. simpl in Ic.
    assert (Hgo : exists s1, (if s_ordered s then
                let '(b, w, fin, ys, er) := fold_left process_ordered batch (s_buffer s, s_wait s, s_finished s, s_yield s, s_error s) in
                Some (mkSt (s_todo s) MFlow (s_ordered s) (s_chunk s) (s_data s) (s_sending s) (s_cnt s) fin b w ys (s_done_calls s) er
                           (s_workq s) (s_resq s) (s_replq s) (s_run_ev s) (s_feeder s) (s_rep s) (s_procs s) (s_retired s) (s_wid s))
              else
                Some (mkSt (s_todo s) MCheck (s_ordered s) (s_chunk s) (s_data s) (s_sending s) (s_cnt s) (s_finished s + length batch)
                           (s_buffer s) (s_wait s) (s_yield s ++ concat (map snd batch)) (s_done_calls s) (s_error s)
                           (s_workq s) (s_resq s) (s_replq s) (s_run_ev s) (s_feeder s) (s_rep s) (s_procs s) (s_retired s) (s_wid s)))
              = Some s1 /\ s1 = s').
    { destruct batch; destruct woken; try discriminate; eexists; split; try exact H; reflexivity. }
    clear H. destruct Hgo as (s1 & H & <-).
    destruct Ic as [(pi & P1 & P2 & P3 & P4) Hpay Hch Hf Hex].
    unfold entries in P1, Hpay. rewrite ?M in P1, Hpay. simpl in P1, Hpay.
    destruct (s_ordered s) eqn:O.
    + (* ordered *)
      specialize (P4 eq_refl). subst pi. rewrite seq_length in P3.
      set (others := map fst (q_entries (s_workq s) ++ held (s_procs s) ++ q_entries (s_resq s))).
      destruct (process_batch (chunk s) others (s_cnt s) batch (s_buffer s) (s_wait s) (s_yield s)) as (b' & w' & Hfold & Pp & Fp).
      * rewrite <- P1. unfold others. rewrite !map_app. perm.
      * rewrite Forall_forall in *. intros x Hx. apply Hpay. apply in_app_or in Hx.
        do 3 (apply in_or_app; right). apply in_or_app. tauto.
      * exact P2.
      * rewrite P3, Ie in H. rewrite Hfold in H. injection H as <-.
        constructor; simpl; auto. constructor; simpl; auto.
        -- exists (seq 0 w'). unfold entries; simpl. repeat split; auto.
           ++ rewrite <- Pp. unfold others. rewrite !map_app. perm.
           ++ rewrite seq_length. reflexivity.
        -- unfold entries; simpl. rewrite Forall_forall in *. intros x Hx.
           change (snd x = chunk s (fst x)).
           apply in_app_or in Hx. destruct Hx as [Hx|Hx]; [apply Hpay; apply in_or_app; left; exact Hx|].
           apply in_app_or in Hx. destruct Hx as [Hx|Hx]; [apply Hpay; apply in_or_app; right; apply in_or_app; left; exact Hx|].
           apply in_app_or in Hx. destruct Hx as [Hx|Hx]; [apply Hpay; apply in_or_app; right; apply in_or_app; right; apply in_or_app; left; exact Hx|].
           apply Fp. exact Hx.
    + (* unordered *)
      injection H as <-. constructor; simpl; auto. constructor; simpl; auto.
      * exists (pi ++ map fst batch). unfold entries; simpl. repeat split.
        -- rewrite <- P1. rewrite !map_app. perm.
        -- rewrite P2. rewrite map_app, concat_app. f_equal. rewrite map_map. f_equal.
           apply map_ext_in. intros x Hx. change (snd x = chunk s (fst x)).
           try rewrite Forall_forall in Hpay. apply Hpay.
           do 3 (apply in_or_app; right). apply in_or_app; left; exact Hx.
        -- rewrite app_length, map_length. lia.
        -- discriminate.
      * unfold entries; simpl. rewrite Forall_forall in *. intros x Hx. change (snd x = chunk s (fst x)). apply Hpay.
        apply in_app_or in Hx. destruct Hx as [Hx|Hx]; [apply in_or_app; left; exact Hx|].
        apply in_app_or in Hx. destruct Hx as [Hx|Hx]; [apply in_or_app; right; apply in_or_app; left; exact Hx|].
        apply in_app_or in Hx. destruct Hx as [Hx|Hx]; [apply in_or_app; right; apply in_or_app; right; apply in_or_app; left; exact Hx|].
        do 4 (apply in_or_app; right). exact Hx.
  - (* EFlow *)
    destruct (s_main s) eqn:M; try discriminate. injection H as <-. rewrite ?M in Ic. simpl in Ic.
    constructor; simpl; auto. apply (core_transfer s); simpl; auto.
    + unfold entries; simpl. rewrite ?M. reflexivity.
    + discriminate.
  - (* EStopF *)
    destruct (s_main s) eqn:M; try discriminate. injection H as <-. rewrite ?M in Ic. simpl in Ic.
    constructor; simpl; auto. apply (core_transfer s); simpl; auto.
    + unfold entries, upd_main; simpl. rewrite ?M. reflexivity.
    + rewrite M. reflexivity.
  - (* EJoinF *)
    destruct (s_main s) eqn:M; try discriminate. destruct (s_feeder s) eqn:Fd; try discriminate. injection H as <-.
    rewrite ?M in Ic. simpl in Ic. destruct Ic as [_ _ _ _ Hex]. rewrite ?M in Hex. destruct Hex as [En _].
    constructor; simpl; auto.
    + unfold entries in *. rewrite ?M in En. simpl in *. destruct (c_factory cfg); simpl; exact En.
    + destruct (c_factory cfg); exact Logic.I.
  - (* ERepPut *)
    destruct (s_main s) eqn:M; try discriminate. injection H as <-. rewrite ?M in Ic. simpl in Ic.
    constructor; simpl; auto. unfold entries in *. rewrite ?M in Ic. simpl in *. exact Ic.
  - (* ERepJoin *)
    destruct (s_main s) eqn:M; try discriminate. destruct (s_rep s); try discriminate. injection H as <-.
    rewrite ?M in Ic. simpl in Ic. constructor; simpl; auto. unfold entries in *. rewrite ?M in Ic. simpl in *. exact Ic.
  - (* EExitPut *)
    destruct (s_main s) eqn:M; try discriminate. destruct n as [|n]; [discriminate|].
    destruct (full (c_wq_cap cfg) (s_workq s)); [discriminate|]. injection H as <-.
    rewrite ?M in Ic. simpl in Ic.
    constructor; simpl; auto.
    + assert (En : entries (mkSt (s_todo s) (match n with 0 => MExitJoin 0 | S _ => MExitPut n end) (s_ordered s) (s_chunk s) (s_data s)
                 (s_sending s) (s_cnt s) (s_finished s) (s_buffer s) (s_wait s) (s_yield s) (s_done_calls s) (s_error s)
                 (s_workq s ++ [QNone]) (s_resq s) (s_replq s) (s_run_ev s) (s_feeder s) (s_rep s) (s_procs s) (s_retired s) (s_wid s)) = entries s).
      { unfold entries; simpl. rewrite ?M, q_entries_app. simpl. rewrite app_nil_r. destruct n; reflexivity. }
      destruct n; simpl; rewrite En; exact Ic.
    + destruct n; exact Logic.I.
  - (* EExitJoin *)
    destruct (s_main s) eqn:M; try discriminate. rewrite ?M in Ic. simpl in Ic.
    assert (Hs : exists m, s' = upd_main s m /\ in_call m = false /\ batch_of m = [] /\ (match m with MRepStarted => False | _ => True end)).
    { destruct (nth_error (s_procs s) k) as [w|].
      - destruct (is_dead w); [|discriminate]. injection H as <-. destruct (S k <? length (s_procs s)); eexists; repeat split.
      - injection H as <-. eexists; repeat split. }
    destruct Hs as (m & -> & Hm1 & Hm2 & Hm3). constructor; simpl; auto.
    + rewrite Hm1. unfold entries in *. simpl. rewrite ?M in Ic. rewrite Hm2. exact Ic.
    + destruct m; auto; contradiction.
  - (* EFPut *)
    destruct (s_feeder s) as [|i [|x rest]| | |] eqn:Fd; try discriminate.
    assert (Hin : in_call (s_main s) = true) by (destruct (s_main s); try discriminate; reflexivity).
    assert (H' : (if full (c_wq_cap cfg) (s_workq s) then None else
                 Some (mkSt (s_todo s) (s_main s) (s_ordered s) (s_chunk s) (s_data s) (s_sending s) (S (s_cnt s)) (s_finished s)
                            (s_buffer s) (s_wait s) (s_yield s) (s_done_calls s) (s_error s)
                            (s_workq s ++ [QChunk i (firstn (s_chunk s) (x :: rest))]) (s_resq s) (s_replq s) (s_run_ev s)
                            (FWait (S i) (skipn (s_chunk s) (x :: rest))) (s_rep s) (s_procs s) (s_retired s) (s_wid s))) = Some s')
      by (destruct (s_main s); try discriminate; exact H).
    clear H. destruct (full (c_wq_cap cfg) (s_workq s)); [discriminate|]. injection H' as <-.
    rewrite ?Hin in Ic. destruct Ic as [(pi & P1 & P2 & P3 & P4) Hpay Hch Hf Hex]. rewrite ?Fd in Hf. destruct Hf as (Hr & Hcnt & Hsend).
    constructor; simpl; auto; [rewrite Hin|destruct (s_main s); auto; discriminate].
    constructor; simpl; auto.
    + exists pi. unfold entries in *; simpl. rewrite q_entries_app. simpl. repeat split; auto.
      change (0 :: seq 1 (s_cnt s)) with (seq 0 (S (s_cnt s))). rewrite seq_S. simpl. rewrite <- P1. rewrite Hcnt. rewrite !map_app. simpl. perm.
    + unfold entries in *; simpl. rewrite q_entries_app. simpl.
      rewrite Forall_forall in *. intros e He. change (snd e = chunk s (fst e)).
      apply in_app_or in He. destruct He as [He|He].
      * apply in_app_or in He. destruct He as [He|[<-|[]]]; [apply Hpay; apply in_or_app; left; exact He|].
        simpl. unfold chunk. rewrite <- Hr. reflexivity.
      * apply Hpay. apply in_or_app; right; exact He.
    + repeat split; auto. rewrite Hr. rewrite skipn_skipn_add. f_equal. lia.
    + destruct (s_main s) eqn:M; auto; destruct Hex as [_ Hs]; congruence.
  - (* EFWake *)
    destruct (s_feeder s) eqn:Fd; try discriminate. destruct (s_run_ev s); [|discriminate]. injection H as <-.
    constructor; simpl; auto.
    + destruct (in_call (s_main s)) eqn:Hin; [|exact Ic].
      destruct Ic as [Hpi Hpay Hch Hf Hex]. rewrite ?Fd in Hf. constructor; simpl; auto.
    + destruct (s_main s); auto. destruct Ip as [Hx _]. discriminate.
  - (* EFClear *)
    destruct (s_feeder s) as [|i [|x rest]| | |] eqn:Fd; try discriminate.
    assert (Hin : in_call (s_main s) = true) by (destruct (s_main s); try discriminate; reflexivity).
    assert (H' : Some (mkSt (s_todo s) (s_main s) (s_ordered s) (s_chunk s) (s_data s) false (s_cnt s) (s_finished s) (s_buffer s)
                     (s_wait s) (s_yield s) (s_done_calls s) (s_error s) (s_workq s) (s_resq s) (s_replq s) (s_run_ev s)
                     FTok (s_rep s) (s_procs s) (s_retired s) (s_wid s)) = Some s')
      by (destruct (s_main s); try discriminate; exact H).
    clear H. injection H' as <-. rewrite ?Hin in Ic. destruct Ic as [Hpi Hpay Hch Hf Hex]. rewrite ?Fd in Hf. destruct Hf as (Hr & Hcnt & Hsend).
    constructor; simpl; auto; [rewrite Hin|destruct (s_main s); auto; discriminate].
    constructor; simpl; auto.
    + rewrite Hcnt. split; [symmetry; exact Hr | reflexivity].
    + destruct (s_main s) eqn:M; auto; destruct Hex as [He _]; (split; [unfold entries in *; simpl; rewrite ?M in *; exact He | reflexivity]).
  - (* EFTok *)
    destruct (s_feeder s) eqn:Fd; try discriminate. injection H as <-.
    assert (En : forall q', q_entries q' = q_entries (s_resq s) ->
       entries (mkSt (s_todo s) (s_main s) (s_ordered s) (s_chunk s) (s_data s) (s_sending s) (s_cnt s) (s_finished s) (s_buffer s)
                     (s_wait s) (s_yield s) (s_done_calls s) (s_error s) (s_workq s) q' (s_replq s) (s_run_ev s)
                     FDone (s_rep s) (s_procs s) (s_retired s) (s_wid s)) = entries s).
    { intros q' Hq. unfold entries; simpl. rewrite Hq. reflexivity. }
    assert (Hq : q_entries (if full (c_rq_cap cfg) (s_resq s) then s_resq s else s_resq s ++ [QNone]) = q_entries (s_resq s)).
    { destruct (full _ _); [reflexivity|]. rewrite q_entries_app. simpl. apply app_nil_r. }
    constructor; simpl; auto.
    + destruct (in_call (s_main s)) eqn:Hin.
      * destruct Ic as [Hpi Hpay Hch Hf Hex]. rewrite ?Fd in Hf. constructor; simpl; auto; try (rewrite (En _ Hq); assumption);
          try (destruct (s_main s) eqn:M; auto; rewrite (En _ Hq); rewrite ?M; exact Hex).
      * rewrite (En _ Hq). exact Ic.
    + destruct (s_main s); auto. destruct Ip as [Hx _]. discriminate.
  - (* EWBegin *)
    destruct raises; [contradiction|]. destruct (slot_step_core cfg s slot 0 s' ltac:(discriminate) H) as [Sc P].
    apply (inv_transfer s s' Sc P IV).
  - (* EWTake *)
    destruct (slot_step_core cfg s slot 1 s' ltac:(discriminate) H) as [Sc P]. apply (inv_transfer s s' Sc P IV).
  - (* EWResult *)
    destruct (slot_step_core cfg s slot 2 s' ltac:(discriminate) H) as [Sc P]. apply (inv_transfer s s' Sc P IV).
  - (* EWRetire *)
    destruct (slot_step_core cfg s slot 3 s' ltac:(discriminate) H) as [Sc P]. apply (inv_transfer s s' Sc P IV).
  - (* EWEnd *)
    destruct (slot_step_core cfg s slot 4 s' ltac:(discriminate) H) as [Sc P]. apply (inv_transfer s s' Sc P IV).
  - (* ERGet *)
    destruct (s_rep s); try discriminate. destruct (s_replq s) as [|it q]; [discriminate|]. injection H as <-.
    apply (inv_transfer s); [repeat split; reflexivity | reflexivity | exact IV].
  - (* ERJoin *)
    destruct (s_rep s); try discriminate. destruct (slot_of (s_procs s) w) as [k|]; [|discriminate].
    destruct (nth_error (s_procs s) k) as [w0|]; [|discriminate]. destruct (is_dead w0); [|discriminate]. injection H as <-.
    apply (inv_transfer s); [repeat split; reflexivity | reflexivity | exact IV].
  - (* ERStart *)
    destruct (s_rep s); try discriminate. destruct (nth_error (s_procs s) w) as [old|] eqn:N; [|discriminate].
    destruct (is_dead old) eqn:Dd; [|discriminate]. injection H as <-.
    apply (inv_transfer s); [repeat split; reflexivity | | exact IV].
    unfold entries; simpl.
    rewrite (held_set_nth_same _ w old); [reflexivity | exact N|].
    unfold hw, is_dead in *. simpl. destruct (w_pc old); try discriminate; reflexivity.
Qed.

(* ------------------------------------------------------------------ results of completed calls *)
Definition is_call (a : action) : bool := match a with ACall _ _ _ => true | AReady => false end.
Definition calls_of (h : list action) : list action := filter is_call h.

(* what a fully consumed call must have yielded: ordered - exactly the input; unordered - the input's chunks, each
   kept whole and in its internal order, every chunk exactly once (in any order of chunks) *)
Definition result_ok (a : action) (ys : list Z) : Prop :=
  match a with
  | ACall true d c => ys = d
  | ACall false d c => exists pi n, Permutation pi (seq 0 n) /\ skipn (n * c) d = []
                                    /\ ys = concat (map (fun j => firstn c (skipn (j * c) d)) pi)
  | AReady => False
  end.

Lemma unordered_is_permutation d c ys : result_ok (ACall false d c) ys -> Permutation ys d.
Proof.
  intros (pi & n & P & Hs & ->).
  transitivity (concat (map (fun j => firstn c (skipn (j * c) d)) (seq 0 n))).
  - rewrite <- !flat_map_concat_map. apply Permutation_flat_map. exact P.
  - rewrite concat_chunks. rewrite <- (firstn_skipn (n * c) d) at 2. rewrite Hs, app_nil_r. reflexivity.
Qed.

Definition cur_class (m : mpc) : nat :=
  match m with
  | MRepStarted | MCheck | MFetch _ _ | MFlow | MStop | MJoinF => 1
  | MRepPut | MRepJoin => 2
  | _ => 0
  end.
Definition cur_call (s : state) : list action :=
  match cur_class (s_main s) with 0 => [] | _ => [ACall (s_ordered s) (s_data s) (s_chunk s)] end.

Definition exit_class (m : mpc) : bool := match m with MExitPut _ | MExitJoin _ | MDone => true | _ => false end.
Record HInv (hist : list action) (s : state) : Prop := {
  h_inv : Inv s;
  h_split : exists done, calls_of hist = done ++ cur_call s ++ calls_of (s_todo s) /\ Forall2 result_ok done (s_done_calls s);
  h_yield : cur_class (s_main s) = 2 -> result_ok (ACall (s_ordered s) (s_data s) (s_chunk s)) (s_yield s);
  h_exit : exit_class (s_main s) = true -> s_todo s = [];
}.

Lemma final_yield s : CoreInv s -> s_main s = MJoinF -> result_ok (ACall (s_ordered s) (s_data s) (s_chunk s)) (s_yield s).
Proof.
  intros [(pi & P1 & P2 & P3 & P4) Hpay Hch Hf Hex] M. rewrite M in Hex. destruct Hex as [En Hs].
  rewrite En in P1. simpl in P1. rewrite app_nil_r in P1.
  assert (Hk : skipn (s_cnt s * s_chunk s) (s_data s) = []).
  { destruct (s_feeder s); try contradiction; destruct Hf as (? & ? & ?) || destruct Hf; congruence. }
  unfold result_ok. destruct (s_ordered s) eqn:O.
  - specialize (P4 eq_refl). subst pi. pose proof (Permutation_length P1) as L. rewrite !seq_length in L.
    rewrite P2, L. unfold chunk. rewrite concat_chunks. rewrite <- (firstn_skipn (s_cnt s * s_chunk s) (s_data s)) at 2.
    rewrite Hk, app_nil_r. reflexivity.
  - exists pi, (s_cnt s). repeat split; auto.
Qed.

Definition structural (e : event) : bool :=
  match e with ENext | EReady | EJoinF | ERepJoin => true | _ => false end.

Lemma step_frame cfg s e s' : step cfg s e = Some s' -> structural e = false ->
  s_todo s' = s_todo s /\ s_done_calls s' = s_done_calls s /\ s_ordered s' = s_ordered s /\ s_data s' = s_data s
  /\ s_chunk s' = s_chunk s /\ cur_class (s_main s') = cur_class (s_main s)
  /\ (cur_class (s_main s) = 2 -> s_yield s' = s_yield s)
  /\ exit_class (s_main s') = exit_class (s_main s).
Proof.
  intros H Hs.
  assert (W : forall k kind, kind <> 5 -> slot_step cfg s k kind false = Some s' ->
     s_todo s' = s_todo s /\ s_done_calls s' = s_done_calls s /\ s_ordered s' = s_ordered s /\ s_data s' = s_data s
     /\ s_chunk s' = s_chunk s /\ cur_class (s_main s') = cur_class (s_main s)
     /\ (cur_class (s_main s) = 2 -> s_yield s' = s_yield s)
     /\ exit_class (s_main s') = exit_class (s_main s)).
  { intros k kind Hk Hst. destruct (slot_step_core cfg s k kind s' Hk Hst) as [(E1 & E2 & E3 & E4 & E5 & E6 & E7 & E8 & E9 & E10 & E11 & E12 & E13) _].
    rewrite E10. repeat split; auto. }
  destruct e; simpl in Hs; try discriminate; unfold step in H;
    try (destruct raises);
    try (eapply W; [|exact H]; discriminate).
  - (* EStartW *)
    destruct (s_main s) eqn:M; try discriminate. destruct (nth_error (s_procs s) k) as [w|]; [|discriminate].
    destruct (w_pc w); try discriminate. injection H as <-. simpl. destruct (S k <? length (s_procs s)); repeat split; auto.
  - destruct (s_main s) eqn:M; try discriminate. injection H as <-. simpl. repeat split; auto; try discriminate.
  - destruct (s_main s) eqn:M; try discriminate.
    destruct (s_sending s || (s_finished s <? s_cnt s)); injection H as <-; simpl; repeat split; auto; try discriminate.
  - destruct (s_main s) eqn:M; try discriminate. destruct (s_resq s) as [|[i xs|] q]; try discriminate; injection H as <-; simpl; repeat split; auto; try discriminate.
  - destruct (s_main s) eqn:M; try discriminate.
    destruct batch as [|b0 br]; destruct woken; try discriminate; destruct (s_ordered s) eqn:O;
      try (destruct (fold_left process_ordered _ _) as [[[[b w] fin] ys] er]);
      injection H as <-; simpl; repeat split; auto; try discriminate.
  - destruct (s_main s) eqn:M; try discriminate. injection H as <-. simpl. repeat split; auto; try discriminate.
  - destruct (s_main s) eqn:M; try discriminate. injection H as <-. simpl. repeat split; auto; try discriminate.
  - destruct (s_main s) eqn:M; try discriminate. injection H as <-. simpl. repeat split; auto.
  - destruct (s_main s) eqn:M; try discriminate. destruct n; [discriminate|]. destruct (full _ _); [discriminate|].
    injection H as <-. simpl. destruct n; repeat split; auto; try discriminate.
  - destruct (s_main s) eqn:M; try discriminate. destruct (nth_error (s_procs s) k) as [w|].
    + destruct (is_dead w); [|discriminate]. injection H as <-. simpl. destruct (S k <? length (s_procs s)); repeat split; auto; try discriminate.
    + injection H as <-. simpl. repeat split; auto; try discriminate.
  - destruct (s_feeder s) as [|i [|x rest]| | |]; try discriminate.
    destruct (s_main s) eqn:M; try discriminate; destruct (full _ _); try discriminate; injection H as <-; simpl; repeat split; auto; try discriminate.
  - destruct (s_feeder s); try discriminate. destruct (s_run_ev s); [|discriminate]. injection H as <-. simpl. repeat split; auto.
  - destruct (s_feeder s) as [|i [|x rest]| | |]; try discriminate.
    destruct (s_main s) eqn:M; try discriminate; injection H as <-; simpl; repeat split; auto; try discriminate.
  - destruct (s_feeder s); try discriminate. injection H as <-. simpl. repeat split; auto.
  - (* EWBegin with a raising begin() *)
    unfold slot_step in H. destruct (nth_error (s_procs s) slot) as [w|]; [|discriminate].
    unfold worker_step in H. destruct (w_pc w); try discriminate. injection H as <-. simpl. repeat split; auto.
  - (* EWFault: a fault loses nothing the history invariant talks about *)
    unfold slot_step in H. destruct (nth_error (s_procs s) slot) as [w|]; [|discriminate].
    unfold worker_step in H. destruct (w_pc w); try discriminate. injection H as <-. simpl. repeat split; auto.
  - destruct (s_rep s); try discriminate. destruct (s_replq s); [discriminate|]. injection H as <-. simpl. repeat split; auto.
  - destruct (s_rep s); try discriminate. destruct (slot_of (s_procs s) w) as [k|]; [|discriminate].
    destruct (nth_error (s_procs s) k) as [w0|]; [|discriminate]. destruct (is_dead w0); [|discriminate]. injection H as <-. simpl. repeat split; auto.
  - destruct (s_rep s); try discriminate. destruct (nth_error (s_procs s) w) as [old|]; [|discriminate].
    destruct (is_dead old); [|discriminate]. injection H as <-. simpl. repeat split; auto.
Qed.

Lemma hinv_step cfg hist s e s' : HInv hist s -> fault_free e -> step cfg s e = Some s' -> HInv hist s'.
Proof.
  intros [IV (done & Hsplit & Hdone) Hy Hx] Hff H. pose proof (inv_step cfg s e s' IV Hff H) as IV'.
  destruct (structural e) eqn:St.
  - destruct e; try discriminate; unfold step in H.
    + (* ENext *)
      destruct (s_main s) eqn:M; try discriminate. unfold cur_call in Hsplit. rewrite ?M in Hsplit. simpl in Hsplit.
      destruct (s_todo s) as [|[o d c|] rest] eqn:T; try discriminate.
      * injection H as <-. constructor; auto; try (simpl; discriminate); try (simpl; intros _; exact T).
        exists done. unfold cur_call; simpl. rewrite ?T. split; assumption.
      * destruct (c_factory cfg); injection H as <-; (constructor; auto; try (simpl; discriminate);
          exists done; unfold cur_call; simpl; split; assumption).
    + (* EReady *)
      destruct (s_main s) eqn:M; try discriminate. destruct (s_todo s) as [|[|] rest] eqn:T; try discriminate.
      destruct (forallb w_ready (s_procs s)); [|discriminate]. injection H as <-.
      unfold cur_call in Hsplit. rewrite ?M in Hsplit. simpl in Hsplit.
      constructor; auto; try (simpl; rewrite ?M; discriminate).
      exists done; unfold cur_call; simpl; rewrite ?M; split; assumption.
    + (* EJoinF *)
      destruct (s_main s) eqn:M; try discriminate. destruct (s_feeder s); try discriminate.
      pose proof (i_call s IV) as Ic. rewrite ?M in Ic. simpl in Ic. pose proof (final_yield s Ic M) as Fy.
      unfold cur_call in Hsplit. rewrite ?M in Hsplit. simpl in Hsplit.
      destruct (c_factory cfg); injection H as <-.
      * constructor; auto; try (simpl; discriminate); try (simpl; intros _; exact Fy).
        exists done; unfold cur_call; simpl; split; assumption.
      * constructor; auto; try (simpl; discriminate).
        exists (done ++ [ACall (s_ordered s) (s_data s) (s_chunk s)]). unfold cur_call; simpl. split.
        -- rewrite Hsplit. rewrite <- app_assoc. reflexivity.
        -- apply Forall2_app; [exact Hdone | constructor; [exact Fy | constructor]].
    + (* ERepJoin *)
      destruct (s_main s) eqn:M; try discriminate. destruct (s_rep s); try discriminate. injection H as <-.
      rewrite ?M in Hy. specialize (Hy eq_refl). unfold cur_call in Hsplit. rewrite ?M in Hsplit. simpl in Hsplit.
      constructor; auto; try (simpl; discriminate).
      exists (done ++ [ACall (s_ordered s) (s_data s) (s_chunk s)]). unfold cur_call; simpl. split.
      * rewrite Hsplit. rewrite <- app_assoc. reflexivity.
      * apply Forall2_app; [exact Hdone | constructor; [exact Hy | constructor]].
  - destruct (step_frame cfg s e s' H St) as (F1 & F2 & F3 & F4 & F5 & F6 & F7 & F8).
    constructor; auto.
    + exists done. unfold cur_call in *. rewrite F6, F1, F2, F3, F4, F5. split; assumption.
    + intros C2. rewrite F6 in C2. rewrite F3, F4, F5, (F7 C2). apply Hy. exact C2.
    + rewrite F8, F1. exact Hx.
Qed.

Lemma inv_init cfg hist : Forall action_ok hist -> Inv (init cfg hist).
Proof.
  intros H. constructor; simpl; auto. unfold entries; simpl.
  assert (G : forall l, held (map (new_worker cfg) l) = []).
  { induction l as [|x l IH]; [reflexivity|]. unfold held in *. simpl. exact IH. }
  rewrite G. reflexivity.
Qed.

Lemma hinv_init cfg hist : Forall action_ok hist -> HInv hist (init cfg hist).
Proof.
  intros H. constructor; [apply inv_init; exact H | | simpl; discriminate | simpl; discriminate].
  exists []. unfold cur_call; simpl. split; [reflexivity | constructor].
Qed.

Definition fault_free_sched (sched : list event) : Prop := Forall fault_free sched.

Theorem hinv_run cfg hist sched : Forall action_ok hist -> fault_free_sched sched ->
  HInv hist (run cfg (init cfg hist) sched).
Proof.
  intros Hh Hs. unfold run.
  assert (G : forall sched s, HInv hist s -> Forall fault_free sched ->
     HInv hist (fold_left (fun s e => match step cfg s e with Some s' => s' | None => s end) sched s)).
  { clear. induction sched as [|e r IH]; intros s I F; simpl; [exact I|]. inversion F; subst. apply IH; [|assumption].
    destruct (step cfg s e) as [s'|] eqn:E; [eapply hinv_step; eauto | exact I]. }
  apply G; [apply hinv_init; exact Hh | exact Hs].
Qed.

(* C01 / C03: for every configuration, every history of calls on one pool, every schedule: the results of the calls
   completed so far are exactly right, call by call - nothing lost, duplicated, reordered, invented or leaked from an
   earlier call; the consumer never raises; when the pool context has been left, every call of the history is there *)
Theorem pool_results cfg hist sched : Forall action_ok hist -> fault_free_sched sched ->
  let s := run cfg (init cfg hist) sched in
  s_error s = false
  /\ (exists done rest, calls_of hist = done ++ rest /\ Forall2 result_ok done (s_done_calls s))
  /\ (s_main s = MDone -> Forall2 result_ok (calls_of hist) (s_done_calls s)).
Proof.
  intros Hh Hs s. destruct (hinv_run cfg hist sched Hh Hs) as [IV (done & Hsplit & Hdone) _ Hx]. fold s in IV, Hsplit, Hdone, Hx.
  split; [apply (i_err s IV)|]. split.
  - exists done, (cur_call s ++ calls_of (s_todo s)). split; assumption.
  - intros M. unfold cur_call in Hsplit. rewrite M in Hsplit, Hx. simpl in Hsplit. rewrite (Hx eq_refl) in Hsplit.
    simpl in Hsplit. rewrite app_nil_r in Hsplit. rewrite Hsplit. exact Hdone.
Qed.

(* nothing of a call is left anywhere (work queue, workers, results queue, batch, reorder buffer) once it is over *)
Theorem nothing_left cfg hist sched : Forall action_ok hist -> fault_free_sched sched ->
  let s := run cfg (init cfg hist) sched in in_call (s_main s) = false -> entries s = [].
Proof.
  intros Hh Hs s Hc. destruct (hinv_run cfg hist sched Hh Hs) as [IV _ _ _]. fold s in IV.
  pose proof (i_call s IV) as Ic. rewrite Hc in Ic. exact Ic.
Qed.

(* ------------------------------------------------------------------ a fair driver, to exhibit complete runs (non-vacuity) *)
Definition all_events (n : nat) : list event :=
  [EStartW; ENext; ECallInit; EReady; ECheck; EGet; EProcess; EFlow; EStopF; EJoinF; ERepPut; ERepJoin; EExitPut; EExitJoin;
   EFPut; EFWake; EFClear; EFTok; ERGet; ERJoin; ERStart]
  ++ flat_map (fun k => [EWBegin k false; EWTake k; EWResult k; EWRetire k; EWEnd k]) (seq 0 n).
Definition fair_sched (n rounds : nat) : list event := concat (repeat (all_events n) rounds).

Lemma fair_sched_fault_free n rounds : fault_free_sched (fair_sched n rounds).
Proof.
  unfold fault_free_sched, fair_sched. apply Forall_concat. apply Forall_forall. intros l Hl. apply repeat_spec in Hl. subst l.
  unfold all_events. apply Forall_app. split.
  - repeat constructor.
  - apply Forall_flat_map. apply Forall_forall. intros k _. repeat constructor.
Qed.
