#!/bin/bash
# usage: goal.sh file.v LINE  -- shows the goal after LINE lines
head -n $2 $1 > /tmp/_goal.v; echo "Show." >> /tmp/_goal.v
cd /verif/coq && timeout 120 coqtop -Q theories WPU < /tmp/_goal.v 2>&1 | tail -${3:-40}
